"""Reader for the ANTLR4 grammars of the repository (the subset of the meta-language they use),
a maximal-munch tokenizer and a memoising backtracking parser built from them.

Used to parse *template strings extracted from the decompilers' print sites* and to decide
grammar facts (lexer rule order, skip channel, nullable, reachability).  No generated parser
code is executed; the generated files are only read for their name tables (sync check).
"""

from __future__ import annotations

import ast
import re
from dataclasses import dataclass, field
from typing import Any, Iterator

from .loader import Repo, AnalysisError

# --------------------------------------------------------------------------- meta-language


@dataclass
class Elem:
    kind: str  # 'ref' (parser rule), 'tok' (lexer rule / token), 'lit', 'set', 'any', 'group', 'eof'
    value: Any = None  # name / literal text / python char class body / list[Seq]
    suffix: str = ""  # '', '?', '*', '+', '*?', '+?', '??'
    negated: bool = False

    def __repr__(self) -> str:
        v = self.value if self.kind != "group" else "(" + " | ".join(map(repr, self.value)) + ")"
        return f"{'~' if self.negated else ''}{v}{self.suffix}"


@dataclass
class Seq:
    elems: list[Elem] = field(default_factory=list)
    command: str | None = None  # '-> skip'

    def __repr__(self) -> str:
        return " ".join(map(repr, self.elems)) + (f" -> {self.command}" if self.command else "")


@dataclass
class Rule:
    name: str
    alts: list[Seq]
    fragment: bool
    grammar: str
    order: int

    @property
    def is_lexer(self) -> bool:
        return self.name[0].isupper()


_META = re.compile(
    r"""
    (?P<ws>\s+)
  | (?P<bc>/\*.*?\*/)
  | (?P<lc>//[^\n]*)
  | (?P<lit>'(?:\\.|[^'\\])*')
  | (?P<set>\[(?:\\.|[^\]\\])*\])
  | (?P<arrow>->)
  | (?P<id>[A-Za-z_][A-Za-z_0-9]*)
  | (?P<p>[:;|()?*+~.])
    """,
    re.X | re.S,
)


def _meta_tokens(src: str) -> list[tuple[str, str]]:
    pos = 0
    out = []
    while pos < len(src):
        m = _META.match(src, pos)
        if not m:
            raise AnalysisError(f"g4: cannot tokenise at {src[pos:pos + 30]!r}")
        pos = m.end()
        k = m.lastgroup
        if k in ("ws", "bc", "lc"):
            continue
        out.append((k, m.group()))  # type: ignore[arg-type]
    return out


def _unescape_lit(body: str) -> str:
    out = []
    i = 0
    while i < len(body):
        c = body[i]
        if c == "\\" and i + 1 < len(body):
            n = body[i + 1]
            if n == "u":
                out.append(chr(int(body[i + 2:i + 6], 16)))
                i += 6
                continue
            out.append({"n": "\n", "r": "\r", "t": "\t", "f": "\f", "b": "\b"}.get(n, n))
            i += 2
        else:
            out.append(c)
            i += 1
    return "".join(out)


def _set_to_py(body: str) -> str:
    """ANTLR char set body -> body of a Python character class."""
    out = []
    i = 0
    while i < len(body):
        c = body[i]
        if c == "\\" and i + 1 < len(body):
            n = body[i + 1]
            if n == "u":
                out.append(re.escape(chr(int(body[i + 2:i + 6], 16))))
                i += 6
                continue
            m = {"n": "\\n", "r": "\\r", "t": "\\t", "f": "\\f", "b": "\\x08", "\\": "\\\\", "]": "\\]", "-": "\\-"}
            out.append(m.get(n, re.escape(n)))
            i += 2
        elif c == "-" and 0 < i < len(body) - 1:
            out.append("-")
            i += 1
        else:
            out.append("\\" + c if c in "[]^\\" else c)
            i += 1
    return "".join(out)


class _GParser:
    def __init__(self, toks: list[tuple[str, str]], gname: str) -> None:
        self.t = toks
        self.i = 0
        self.gname = gname

    def peek(self) -> tuple[str, str]:
        return self.t[self.i] if self.i < len(self.t) else ("eof", "")

    def eat(self, val: str | None = None) -> tuple[str, str]:
        k = self.peek()
        if val is not None and k[1] != val:
            raise AnalysisError(f"g4 {self.gname}: expected {val!r}, got {k[1]!r}")
        self.i += 1
        return k

    def grammar(self) -> tuple[str, list[str], list[Rule]]:
        self.eat("grammar")
        name = self.eat()[1]
        self.eat(";")
        imports: list[str] = []
        rules: list[Rule] = []
        while self.peek()[0] != "eof":
            if self.peek()[1] == "import":
                self.eat()
                imports.append(self.eat()[1])
                while self.peek()[1] != ";":
                    self.eat()  # ',' not produced by tokenizer; keep simple
                    imports.append(self.eat()[1])
                self.eat(";")
                continue
            frag = False
            if self.peek()[1] == "fragment":
                self.eat()
                frag = True
            rname = self.eat()[1]
            self.eat(":")
            alts = self.alts()
            self.eat(";")
            rules.append(Rule(rname, alts, frag, name, len(rules)))
        return name, imports, rules

    def alts(self) -> list[Seq]:
        out = [self.seq()]
        while self.peek()[1] == "|":
            self.eat()
            out.append(self.seq())
        return out

    def seq(self) -> Seq:
        s = Seq()
        while True:
            k, v = self.peek()
            if v in ("|", ";", ")") or k == "eof":
                break
            if k == "arrow":
                self.eat()
                s.command = self.eat()[1]
                continue
            s.elems.append(self.elem())
        return s

    def elem(self) -> Elem:
        k, v = self.eat()
        neg = False
        if v == "~":
            neg = True
            k, v = self.eat()
        if k == "lit":
            e = Elem("lit", _unescape_lit(v[1:-1]))
        elif k == "set":
            e = Elem("set", _set_to_py(v[1:-1]))
        elif v == ".":
            e = Elem("any")
        elif v == "(":
            e = Elem("group", self.alts())
            self.eat(")")
        elif k == "id":
            if v == "EOF":
                e = Elem("eof")
            else:
                e = Elem("tok" if v[0].isupper() else "ref", v)
        else:
            raise AnalysisError(f"g4 {self.gname}: unexpected {v!r}")
        e.negated = neg
        k2, v2 = self.peek()
        if v2 in ("?", "*", "+"):
            self.eat()
            e.suffix = v2
            if self.peek()[1] == "?":
                self.eat()
                e.suffix += "?"
        return e


# --------------------------------------------------------------------------- combined grammar


@dataclass
class Token:
    type: str
    text: str
    pos: int
    placeholder: Any = None  # hole id when the token is a traceable placeholder

    def __repr__(self) -> str:
        return f"{self.type}:{self.text!r}"


@dataclass
class Node:
    rule: str
    children: list[Any]
    alt: int = 0

    # ANTLR-like accessors -------------------------------------------------
    def tokens(self, ttype: str) -> list[Token]:
        return [c for c in self.children if isinstance(c, Token) and c.type == ttype]

    def tok(self, ttype: str, i: int | None = None) -> Token | None:
        ts = self.tokens(ttype)
        if i is None:
            return ts[0] if ts else None
        return ts[i] if i < len(ts) else None

    def subs(self, rule: str) -> list["Node"]:
        return [c for c in self.children if isinstance(c, Node) and c.rule == rule]

    def sub(self, rule: str, i: int | None = None) -> "Node | None":
        ss = self.subs(rule)
        if i is None:
            return ss[0] if ss else None
        return ss[i] if i < len(ss) else None

    def first_token(self) -> Token | None:
        for c in self.children:
            if isinstance(c, Token):
                return c
            t = c.first_token()
            if t is not None:
                return t
        return None

    def last_token(self) -> Token | None:
        for c in reversed(self.children):
            if isinstance(c, Token):
                return c
            t = c.last_token()
            if t is not None:
                return t
        return None

    def walk(self) -> Iterator["Node"]:
        yield self
        for c in self.children:
            if isinstance(c, Node):
                yield from c.walk()

    def text(self) -> str:
        return " ".join(c.text if isinstance(c, Token) else c.text() for c in self.children)

    def __repr__(self) -> str:
        return f"({self.rule} {' '.join(map(repr, self.children))})"


class Grammar:
    def __init__(self, name: str, rules: list[Rule], sources: dict[str, str]) -> None:
        self.name = name
        self.sources = sources
        self.rules: dict[str, Rule] = {}
        self.order: list[str] = []
        for r in rules:
            self.rules[r.name] = r
            self.order.append(r.name)
        self.parser_rules = [n for n in self.order if not self.rules[n].is_lexer]
        self.implicit: list[str] = []  # literals used in parser rules without a lexer rule
        self._literal_token: dict[str, str] = {}
        self._collect_literals()
        # effective lexer order: implicit literals first (ANTLR: T__n), then lexer rules in order
        self.lexer_rules = [n for n in self.order if self.rules[n].is_lexer and not self.rules[n].fragment]
        self._regex_cache: dict[str, list[re.Pattern[str]]] = {}
        self._memo: dict[tuple[str, int], list[tuple[int, Any]]] = {}
        self._toks: list[Token] = []

    # ------------------------------------------------------------------ literals
    def _collect_literals(self) -> None:
        for n in self.order:
            r = self.rules[n]
            if r.is_lexer and not r.fragment and len(r.alts) == 1 and len(r.alts[0].elems) == 1:
                e = r.alts[0].elems[0]
                if e.kind == "lit" and not e.suffix and e.value not in self._literal_token:
                    self._literal_token[e.value] = n
        for n in self.parser_rules:
            for lit in self._lits(self.rules[n].alts):
                if lit not in self._literal_token and lit not in self.implicit:
                    self.implicit.append(lit)

    def _lits(self, alts: list[Seq]) -> Iterator[str]:
        for s in alts:
            for e in s.elems:
                if e.kind == "lit":
                    yield e.value
                elif e.kind == "group":
                    yield from self._lits(e.value)

    def literal_token(self, lit: str) -> str:
        if lit in self._literal_token:
            return self._literal_token[lit]
        return f"'{lit}'"

    # ------------------------------------------------------------------ lexer regexes
    def rule_regex(self, name: str) -> str:
        r = self.rules[name]
        return "|".join(f"(?:{self._seq_regex(s)})" for s in r.alts)

    def alt_regexes(self, name: str) -> list[str]:
        return [self._seq_regex(s) for s in self.rules[name].alts]

    def _seq_regex(self, s: Seq) -> str:
        return "".join(self._elem_regex(e) for e in s.elems)

    def _elem_regex(self, e: Elem) -> str:
        if e.kind == "lit":
            base = re.escape(e.value)
            if len(e.value) > 1 and e.suffix:
                base = f"(?:{base})"
            if e.negated:
                base = f"[^{re.escape(e.value)}]"
        elif e.kind == "set":
            base = f"[{'^' if e.negated else ''}{e.value}]"
        elif e.kind == "any":
            base = r"[\s\S]"
        elif e.kind == "eof":
            base = r"\Z"
        elif e.kind == "tok":
            inner = self.rule_regex(e.value)
            if e.negated:
                raise AnalysisError(f"g4: negated token reference {e.value}")
            base = f"(?:{inner})"
        elif e.kind == "group":
            inner = "|".join(f"(?:{self._seq_regex(s)})" for s in e.value)
            if e.negated:
                raise AnalysisError("g4: negated group")
            base = f"(?:{inner})"
        else:
            raise AnalysisError(f"g4: element kind {e.kind} in lexer rule")
        return base + e.suffix

    def _compiled(self, name: str) -> list[re.Pattern[str]]:
        if name not in self._regex_cache:
            self._regex_cache[name] = [re.compile(a) for a in self.alt_regexes(name)]
        return self._regex_cache[name]

    def is_skip(self, name: str) -> bool:
        return any(s.command == "skip" for s in self.rules[name].alts)

    # ------------------------------------------------------------------ tokenizer
    def tokenize(self, text: str, placeholders: dict[str, Any] | None = None) -> list[Token]:
        out: list[Token] = []
        pos = 0
        n = len(text)
        while pos < n:
            best_len = -1
            best_type = None
            for lit in self.implicit:
                if text.startswith(lit, pos) and len(lit) > best_len:
                    best_len, best_type = len(lit), f"'{lit}'"
            for name in self.lexer_rules:
                for rx in self._compiled(name):
                    m = rx.match(text, pos)
                    if m and m.end() - pos > best_len and m.end() > pos:
                        best_len, best_type = m.end() - pos, name
            if best_type is None:
                raise AnalysisError(f"g4 tokenizer: no rule matches at {text[pos:pos + 20]!r}")
            lexeme = text[pos:pos + best_len]
            if not (best_type in self.rules and self.is_skip(best_type)):
                ph = placeholders.get(lexeme) if placeholders else None
                out.append(Token(best_type, lexeme, pos, ph))
            pos += best_len
        return out

    # ------------------------------------------------------------------ parser
    def parse(self, start: str, toks: list[Token], require_all: bool = True) -> Node | None:
        self._memo = {}
        self._toks = toks
        if start not in self.rules:
            raise AnalysisError(f"g4: start rule {start} not in grammar {self.name}")
        for end, tree in self._rule(start, 0):
            if not require_all or end == len(toks):
                return tree
        return None

    def parse_text(self, start: str, text: str, placeholders: dict[str, Any] | None = None) -> Node | None:
        return self.parse(start, self.tokenize(text, placeholders))

    def _rule(self, name: str, pos: int) -> list[tuple[int, Any]]:
        key = (name, pos)
        if key in self._memo:
            return self._memo[key]
        self._memo[key] = []  # left-recursion guard
        out: list[tuple[int, Any]] = []
        seen: set[int] = set()
        for ai, s in enumerate(self.rules[name].alts):
            for end, kids in self._seq(s.elems, 0, pos):
                if end not in seen:  # first alternative wins for the same span (ANTLR: lowest alt)
                    seen.add(end)
                    out.append((end, Node(name, kids, ai)))
        self._memo[key] = out
        return out

    def _seq(self, elems: list[Elem], i: int, pos: int) -> Iterator[tuple[int, list[Any]]]:
        if i == len(elems):
            yield pos, []
            return
        e = elems[i]
        for end, kids in self._elem(e, pos):
            for end2, rest in self._seq(elems, i + 1, end):
                yield end2, kids + rest

    def _elem(self, e: Elem, pos: int) -> Iterator[tuple[int, list[Any]]]:
        if e.suffix in ("", ):
            yield from self._once(e, pos)
        elif e.suffix.startswith("?"):
            yield from self._once(e, pos)  # greedy: try with first
            yield pos, []
        elif e.suffix.startswith("*"):
            yield from self._many(e, pos, 0)
        elif e.suffix.startswith("+"):
            yield from self._many(e, pos, 1)

    def _many(self, e: Elem, pos: int, minimum: int) -> Iterator[tuple[int, list[Any]]]:
        # greedy: longest repetition first
        results: list[tuple[int, list[Any]]] = []

        def rec(p: int, acc: list[Any], count: int) -> None:
            progressed = False
            for end, kids in self._once(e, p):
                if end > p:
                    progressed = True
                    rec(end, acc + kids, count + 1)
            if count >= minimum:
                results.append((p, acc))
            _ = progressed

        rec(pos, [], 0)
        yield from results

    def _once(self, e: Elem, pos: int) -> Iterator[tuple[int, list[Any]]]:
        toks = self._toks
        if e.kind == "ref":
            for end, tree in self._rule(e.value, pos):
                yield end, [tree]
        elif e.kind == "tok":
            if pos < len(toks) and toks[pos].type == e.value:
                yield pos + 1, [toks[pos]]
        elif e.kind == "lit":
            want = self.literal_token(e.value)
            if pos < len(toks) and toks[pos].type == want:
                yield pos + 1, [toks[pos]]
        elif e.kind == "eof":
            if pos == len(toks):
                yield pos, []
        elif e.kind == "group":
            for s in e.value:
                yield from self._seq(s.elems, 0, pos)
        else:
            raise AnalysisError(f"g4: element kind {e.kind} in parser rule")

    # ------------------------------------------------------------------ grammar facts
    def refs(self, name: str) -> set[str]:
        out: set[str] = set()

        def walk(alts: list[Seq]) -> None:
            for s in alts:
                for e in s.elems:
                    if e.kind in ("ref", "tok"):
                        out.add(e.value)
                    elif e.kind == "group":
                        walk(e.value)

        walk(self.rules[name].alts)
        return out

    def element_frequencies(self, name: str) -> dict[str, int]:
        """How often each rule/token reference can occur in one match of the rule (2 = more than once): decides, as in the generated
        parser, whether the context accessor returns a list (`ctx.stmt()`) or a single child (`ctx.if_header()`)."""
        def of_alts(alts: list[Seq]) -> dict[str, int]:
            out: dict[str, int] = {}
            for s in alts:
                for k, v in of_seq(s).items():
                    out[k] = max(out.get(k, 0), v)
            return out

        def of_seq(s: Seq) -> dict[str, int]:
            out: dict[str, int] = {}
            for e in s.elems:
                if e.kind in ("ref", "tok"):
                    sub = {e.value: 1}
                elif e.kind == "group":
                    sub = of_alts(e.value)
                else:
                    continue
                many = e.suffix[:1] in ("*", "+")
                for k, v in sub.items():
                    out[k] = min(2, out.get(k, 0) + (2 if many else v))
            return out

        return of_alts(self.rules[name].alts)

    def reachable(self, start: str) -> set[str]:
        seen = {start}
        todo = [start]
        while todo:
            n = todo.pop()
            for r in self.refs(n):
                if r in self.rules and r not in seen:
                    seen.add(r)
                    todo.append(r)
        return seen

    def parser_alphabet_tokens(self) -> set[str]:
        out: set[str] = set()
        for n in self.parser_rules:
            for r in self.refs(n):
                if r in self.rules and self.rules[r].is_lexer:
                    out.add(r)
        return out


def _read_grammar_file(repo: Repo, name: str) -> tuple[list[str], list[Rule], str]:
    rel = f"explorerscript/antlr/{name}.g4"
    src = repo.read_text(rel)
    gname, imports, rules = _GParser(_meta_tokens(src), name).grammar()
    if gname != name:
        raise AnalysisError(f"{rel}: declares grammar {gname}")
    return imports, rules, src


def load_grammar(repo: Repo, name: str) -> Grammar:
    """Combined grammar with ANTLR import semantics: main rules first, imported rules that are not overridden after."""
    sources: dict[str, str] = {}

    def load(n: str, seen: set[str]) -> list[Rule]:
        imports, rules, src = _read_grammar_file(repo, n)
        sources[n] = src
        out = list(rules)
        names = {r.name for r in out}
        for imp in imports:
            if imp in seen:
                continue
            seen.add(imp)
            for r in load(imp, seen):
                if r.name not in names:
                    names.add(r.name)
                    out.append(r)
        return out

    rules = load(name, {name})
    return Grammar(name, rules, sources)


def generated_names(repo: Repo, gname: str, kind: str) -> dict[str, list[str]]:
    """ruleNames / literalNames / symbolicNames of the generated Lexer or Parser (read as literals)."""
    rel = f"explorerscript/antlr/{gname}{kind}.py"
    src = repo.read_text(rel)
    tree = ast.parse(src)
    out: dict[str, list[str]] = {}
    for node in ast.walk(tree):
        if isinstance(node, ast.ClassDef) and node.name == f"{gname}{kind}":
            for st in node.body:
                if isinstance(st, ast.Assign) and isinstance(st.targets[0], ast.Name) and st.targets[0].id in (
                        "ruleNames", "literalNames", "symbolicNames"):
                    try:
                        out[st.targets[0].id] = list(ast.literal_eval(st.value))
                    except Exception:
                        raise AnalysisError(f"{rel}: {st.targets[0].id} is not a literal list")
    return out
