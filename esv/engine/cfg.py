"""Statement-level control-flow graphs for Python functions, with dominators and path queries.

Nodes are ast statements (compound statements are represented by their *header*: the test of an
``if``/``while``, the iterator of a ``for``, the context expressions of a ``with``).  Two synthetic
nodes ENTRY and EXIT; ``raise`` and failing ``assert`` go to RAISE (a second exit) unless an
enclosing ``try`` catches them (handlers are entered conservatively from every statement of the body).
"""

from __future__ import annotations

import ast
from dataclasses import dataclass, field
from typing import Callable, Iterable


class _Syn:
    def __init__(self, name: str) -> None:
        self.name = name
        self.lineno = 0

    def __repr__(self) -> str:
        return f"<{self.name}>"


@dataclass
class CFG:
    fn: ast.FunctionDef
    entry: object = field(default_factory=lambda: _Syn("ENTRY"))
    exit: object = field(default_factory=lambda: _Syn("EXIT"))
    raise_exit: object = field(default_factory=lambda: _Syn("RAISE"))
    succ: dict[object, list[object]] = field(default_factory=dict)
    pred: dict[object, list[object]] = field(default_factory=dict)
    nodes: list[object] = field(default_factory=list)
    # edge labels for branch nodes: (node, succ) -> True/False
    label: dict[tuple[int, int], bool] = field(default_factory=dict)

    def add_node(self, n: object) -> None:
        if n not in self.succ:
            self.succ[n] = []
            self.pred[n] = []
            self.nodes.append(n)

    def add_edge(self, a: object, b: object, lab: bool | None = None) -> None:
        self.add_node(a)
        self.add_node(b)
        if b not in self.succ[a]:
            self.succ[a].append(b)
            self.pred[b].append(a)
        if lab is not None:
            self.label[(id(a), id(b))] = lab

    # ------------------------------------------------------------------ queries
    def reachable_from(self, start: object, avoid: Callable[[object], bool] | None = None) -> set[int]:
        seen = {id(start)}
        todo = [start]
        while todo:
            n = todo.pop()
            for s in self.succ.get(n, []):
                if id(s) in seen:
                    continue
                if avoid is not None and avoid(s):
                    continue
                seen.add(id(s))
                todo.append(s)
        return seen

    def path_avoiding(self, start: object, goal: object, avoid: Callable[[object], bool]) -> bool:
        """Is there a path start ->* goal on which no intermediate node (excluding start) satisfies ``avoid``?"""
        return id(goal) in self.reachable_from(start, avoid)

    def dominators(self) -> dict[int, set[int]]:
        ids = [id(n) for n in self.nodes]
        allset = set(ids)
        dom = {i: set(allset) for i in ids}
        dom[id(self.entry)] = {id(self.entry)}
        changed = True
        order = self.nodes
        while changed:
            changed = False
            for n in order:
                if n is self.entry:
                    continue
                ps = [dom[id(p)] for p in self.pred[n] if id(p) in dom]
                new = set.intersection(*ps) if ps else set()
                new = new | {id(n)}
                if new != dom[id(n)]:
                    dom[id(n)] = new
                    changed = True
        return dom

    def dominates(self, a: object, b: object, dom: dict[int, set[int]] | None = None) -> bool:
        d = dom or self.dominators()
        return id(a) in d.get(id(b), set())

    def stmt_nodes(self) -> list[ast.stmt]:
        return [n for n in self.nodes if isinstance(n, ast.stmt)]


class _Builder:
    def __init__(self, fn: ast.FunctionDef) -> None:
        self.g = CFG(fn)
        self.g.add_node(self.g.entry)
        self.g.add_node(self.g.exit)
        self.g.add_node(self.g.raise_exit)
        self.loop_stack: list[tuple[object, list[object]]] = []  # (continue target, break sources)
        self.try_stack: list[list[object]] = []  # handler entry nodes

    def build(self) -> CFG:
        outs = self.block(self.g.fn.body, [self.g.entry])
        for o in outs:
            self.g.add_edge(o, self.g.exit)
        return self.g

    def _to_handlers(self, n: object) -> None:
        if self.try_stack:
            for h in self.try_stack[-1]:
                self.g.add_edge(n, h)
        else:
            pass

    def block(self, body: list[ast.stmt], ins: list[object]) -> list[object]:
        cur = ins
        for st in body:
            cur = self.stmt(st, cur)
            if not cur:
                # unreachable code after return/raise: still add nodes so they exist, but unconnected
                pass
        return cur

    def stmt(self, st: ast.stmt, ins: list[object]) -> list[object]:
        g = self.g
        g.add_node(st)
        for i in ins:
            lab = getattr(self, "_pending_label", {}).pop(id(i), None) if hasattr(self, "_pending_label") else None
            g.add_edge(i, st, lab)
        if self.try_stack:
            self._to_handlers(st)
        if isinstance(st, ast.If):
            t_out = self.branch(st, st.body, True)
            f_out = self.branch(st, st.orelse, False) if st.orelse else [self._lab(st, False)]
            return t_out + f_out
        if isinstance(st, (ast.While, ast.For, ast.AsyncFor)):
            breaks: list[object] = []
            self.loop_stack.append((st, breaks))
            body_out = self.branch(st, st.body, True)
            self.loop_stack.pop()
            for o in body_out:
                g.add_edge(o, st)
            infinite = isinstance(st, ast.While) and isinstance(st.test, ast.Constant) and st.test.value is True
            outs: list[object] = []
            if not infinite:
                outs = self.branch(st, st.orelse, False) if st.orelse else [self._lab(st, False)]
            return outs + breaks
        if isinstance(st, (ast.With, ast.AsyncWith)):
            return self.block(st.body, [st])
        if isinstance(st, ast.Try):
            handler_entries: list[object] = []
            for h in st.handlers:
                g.add_node(h)
                handler_entries.append(h)
            self.try_stack.append(handler_entries)
            body_out = self.block(st.body, [st])
            self.try_stack.pop()
            g_outs: list[object] = []
            else_out = self.block(st.orelse, body_out) if st.orelse else body_out
            g_outs += else_out
            for h in st.handlers:
                g.add_edge(st, h)  # conservatively: handler reachable from the try head
                g_outs += self.block(h.body, [h])
            if st.finalbody:
                g_outs = self.block(st.finalbody, g_outs)
            return g_outs
        if isinstance(st, ast.Return):
            g.add_edge(st, g.exit)
            return []
        if isinstance(st, ast.Raise):
            if self.try_stack:
                self._to_handlers(st)
            else:
                g.add_edge(st, g.raise_exit)
            return []
        if isinstance(st, ast.Assert):
            if not self.try_stack:
                g.add_edge(st, g.raise_exit)
            return [st]
        if isinstance(st, ast.Break):
            if self.loop_stack:
                self.loop_stack[-1][1].append(st)
            return []
        if isinstance(st, ast.Continue):
            if self.loop_stack:
                g.add_edge(st, self.loop_stack[-1][0])
            return []
        if isinstance(st, ast.Match):
            outs2: list[object] = []
            for case in st.cases:
                outs2 += self.block(case.body, [st])
            return outs2 + [st]
        return [st]

    def _lab(self, st: object, lab: bool) -> object:
        if not hasattr(self, "_pending_label"):
            self._pending_label: dict[int, bool] = {}
        self._pending_label[id(st)] = lab
        return st

    def branch(self, head: ast.stmt, body: list[ast.stmt], lab: bool) -> list[object]:
        if not body:
            return [self._lab(head, lab)]
        first = body[0]
        self.g.add_node(first)
        self.g.add_edge(head, first, lab)
        outs = self.stmt(first, [])
        return self.block(body[1:], outs)


def build_cfg(fn: ast.FunctionDef) -> CFG:
    return _Builder(fn).build()


def stmt_of(cfg: CFG, node: ast.AST) -> ast.stmt | None:
    """The CFG statement node whose *own* expressions contain ``node`` (headers for compound statements)."""
    for st in cfg.stmt_nodes():
        for sub in _own_exprs(st):
            for n in ast.walk(sub):
                if n is node:
                    return st
        if st is node:
            return st
    return None


def _own_exprs(st: ast.stmt) -> Iterable[ast.AST]:
    if isinstance(st, (ast.If, ast.While)):
        return [st.test]
    if isinstance(st, (ast.For, ast.AsyncFor)):
        return [st.target, st.iter]
    if isinstance(st, (ast.With, ast.AsyncWith)):
        return [i.context_expr for i in st.items] + [i.optional_vars for i in st.items if i.optional_vars is not None]
    if isinstance(st, ast.Try):
        return []
    if isinstance(st, (ast.FunctionDef, ast.ClassDef)):
        return []
    if isinstance(st, ast.Match):
        return [st.subject]
    return [st]
