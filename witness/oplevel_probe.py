# Triage tool (uses the real code; no check does). Run with PYTHONPATH=/repo:/verif/witness
"""Exploration with the REAL code (triage only): exhaustive op-level routines of N ops."""
import itertools, sys, signal, logging, warnings, json
warnings.filterwarnings("ignore"); logging.disable(logging.CRITICAL)
sys.setrecursionlimit(3000)
from explorerscript.ssb_converting.ssb_compiler import ExplorerScriptSsbCompiler
from explorerscript.ssb_converting.ssb_data_types import DungeonModeConstants, SsbCoroutine, SsbOperation, SsbOpCode, SsbRoutineInfo, SsbRoutineType, SsbOpParamConstant
from explorerscript.ssb_converting.ssb_decompiler import ExplorerScriptSsbDecompiler
from explorerscript.ssb_converting.ssb_special_ops import OPS_WITH_JUMP_TO_MEM_OFFSET
DMC = DungeonModeConstants("DMODE_CLOSED", "DMODE_OPEN", "DMODE_REQUEST", "DMODE_OPEN_AND_REQUEST")
FLOW_ENDING = {"Return", "End", "Hold", "Destroy", "JumpCommon"}
class TO(BaseException): pass
def alarm(*a): raise TO()
signal.signal(signal.SIGALRM, alarm)

def behaviour(routine_ops, depth=12):
    by_offset, order = {}, []
    for rtn in routine_ops:
        for op in rtn:
            by_offset[op.offset] = op; order.append(op.offset)
    following = dict(zip(order, order[1:]))
    result = []
    for rtn in routine_ops:
        paths = set()
        stack = [(rtn[0].offset, (), 0)] if len(rtn) > 0 else []
        while stack:
            off, trace, silent = stack.pop()
            if len(trace) >= depth or silent > 50:
                paths.add(trace + ("...",)); continue
            op = by_offset[off]; name = op.op_code.name; params = list(op.params)
            if name == "Jump":
                stack.append((params[0], trace, silent+1))
            elif name in OPS_WITH_JUMP_TO_MEM_OFFSET:
                target = params.pop(OPS_WITH_JUMP_TO_MEM_OFFSET[name])
                event = (name, tuple(str(p) for p in params))
                stack.append((target, trace + (event + ("taken",),),0))
                stack.append((following[off], trace + (event + ("not taken",),),0))
            else:
                event = (name, tuple(str(p) for p in params))
                if name in FLOW_ENDING: paths.add(trace + (event,))
                else: stack.append((following[off], trace + (event,),0))
        result.append(paths)
    return result

def wellformed(prog):
    n=len(prog)
    # last op must not fall off; every path ends
    succ={}
    for i,(k,t) in enumerate(prog):
        if k=='E': succ[i]=[]
        elif k=='J': succ[i]=[t]
        elif k=='B': succ[i]=[t,i+1]
        else: succ[i]=[i+1]
        if any(s>=n for s in succ[i]): return False
    # no jump-only cycle
    for i,(k,t) in enumerate(prog):
        if k=='J':
            seen=set(); j=i
            while prog[j][0]=='J':
                if j in seen: return False
                seen.add(j); j=prog[j][1]
    # from every reachable op an End is reachable (every path ends - at least can end)
    return True

def build(prog):
    ops=[]
    for i,(k,t) in enumerate(prog):
        if k=='E': ops.append(SsbOperation(i, SsbOpCode(-1,'End'), []))
        elif k=='J': ops.append(SsbOperation(i, SsbOpCode(-1,'Jump'), [t]))
        elif k=='B': ops.append(SsbOperation(i, SsbOpCode(-1,'Branch'), [SsbOpParamConstant('$V%d'%i), 1, t]))
        else: ops.append(SsbOperation(i, SsbOpCode(-1,'op%d'%i), []))
    return ops

def check(prog):
    ops=[build(prog)]
    infos=[SsbRoutineInfo(SsbRoutineType.GENERIC,0)]
    exp=behaviour(ops)
    signal.alarm(20)
    try:
        text,_=ExplorerScriptSsbDecompiler(infos, ops, [], "$PERF", DMC).convert()
    except TO:
        return 'timeout-decompile', None
    except Exception as ex:
        return 'raise-decompile %s'%type(ex).__name__, None
    finally:
        signal.alarm(0)
    try:
        c=ExplorerScriptSsbCompiler("$PERF"); c.compile(text,"/tmp/x.exps")
    except Exception as ex:
        return 'reject %s: %s'%(type(ex).__name__, str(ex)[:80]), text
    act=behaviour(c.routine_ops)
    if exp!=act:
        return 'behaviour', text
    return ('fallback' if text.startswith('//?: is-ssb-script') else 'ok'), text

def progs(n):
    choices=[('P',None),('E',None)]+[('J',t) for t in range(n)]+[('B',t) for t in range(n)]
    for p in itertools.product(choices, repeat=n):
        if p[-1][0] not in 'EJ': continue
        if wellformed(p): yield p

if __name__=='__main__':
    n=int(sys.argv[1]); part=int(sys.argv[2]) if len(sys.argv)>2 else 0; parts=int(sys.argv[3]) if len(sys.argv)>3 else 1
    import collections
    c=collections.Counter(); bad=[]
    for i,p in enumerate(progs(n)):
        if i%parts!=part: continue
        r,text=check(p)
        c[r.split(' ')[0]]+=1
        if r not in ('ok','fallback'):
            bad.append((p,r,text))
    print(n, dict(c))
    json.dump([[list(map(list,p)),r,t] for p,r,t in bad], open(f'/tmp/probe2/bad_{n}_{part}.json','w'), indent=0)
