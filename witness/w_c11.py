from wlib import *
import random, logging, sys, gc
logging.disable(logging.CRITICAL)
import explorerscript.ssb_converting.decompiler.graph_building.graph_utils as gu
exec(open("w_c13e.py").read().split("found = 0")[0].split("seed = int")[0])  # imports
seed = 1; random.seed(seed)
src_mod = open("w_c13e.py").read()
ns = {}
exec(src_mod.split("found = 0")[0].replace("seed = int(sys.argv[1]); random.seed(seed)", ""), ns)
ifb, swb = ns["ifb"], ns["swb"]
progs = []
for t in range(400):
    routines = []
    for r in range(random.randint(1, 3)):
        parts = [random.choice([ifb, swb, swb, lambda i: "x%d();" % i])(i) for i in range(random.randint(1, 6))]
        routines.append("def %d { %s end; }" % (r, " ".join(parts)))
    progs.append(" ".join(routines))
def run(seq, clear=False):
    out = []
    for s in seq:
        if clear: gu.find_first_common_next_vertex_in_edges_cache.clear()
        c = comp(s); txt, sm = decomp(c)
        out.append("F" if "is-ssb-script" in txt else "J" if "jump @" in txt else ".")
    return out
res = run(progs)
bad = [i for i, r in enumerate(res) if r != "."]
print("bad indices", bad[:10], "cache size", len(gu.find_first_common_next_vertex_in_edges_cache), sum(len(v) for v in gu.find_first_common_next_vertex_in_edges_cache.values()))
if bad:
    i = bad[0]
    print("alone:", run([progs[i]]))
    print("with clear:", run(progs[:i+1], clear=True)[-1])
    # bisect history
    for k in range(i - 1, -1, -1):
        r = run(progs[k:i+1])[-1]
        if r != ".":
            print("needs history from", k, "len", i - k); break
open("/tmp/p130.txt","w").write(progs[130])
open("/tmp/p129.txt","w").write(progs[129])
