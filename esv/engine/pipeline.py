"""The repository's own entry points, interpreted end to end.

`Pipeline` evaluates `ExplorerScriptSsbCompiler.compile`, `SsbScriptSsbCompiler.compile`, `ExplorerScriptSsbDecompiler.convert` and
`SsbScriptSsbDecompiler.convert` from their syntax trees (engine.absint).  What the repository delegates to third parties is modelled:

  * the parser runtime - `InputStream`/lexer/`CommonTokenStream`/parser objects whose `start()` parses with the grammar read from the
    .g4 files (engine.g4), fires the registered parse listeners in the order the generated parser would (enterEveryRule, enterX,
    children, exitX, exitEveryRule) and reports a syntax error to the registered error listeners;
  * the graph library (engine.migraph);
  * the file system: a dictionary of virtual files behind `open`, `os.path.*` and pathlib's pure paths.
"""

from __future__ import annotations

import posixpath
import re
from pathlib import PurePath, PurePosixPath
from typing import Any

from .absint import ACtx, AObj, Interp, NativeObj, PyExc, Tok, Unsupported
from .loader import AnalysisError, Repo

GRAMMARS = {"ExplorerScript": "ExplorerScript", "SsbScript": "SsbScript"}


class _NInput(NativeObj):
    def __init__(self, text: Any) -> None:
        self.text = text


class _NLexer(NativeObj):
    def __init__(self, grammar: str, inp: _NInput) -> None:
        self.grammar = grammar
        self.inp = inp
        self.error_listeners: list[Any] = []

    def removeErrorListeners(self) -> None:
        self.error_listeners = []

    def addErrorListener(self, l: Any) -> None:
        self.error_listeners.append(l)


class _NStream(NativeObj):
    def __init__(self, lexer: _NLexer) -> None:
        self.lexer = lexer


class _NFile(NativeObj):
    def __init__(self, text: str) -> None:
        self.text = text

    def read(self) -> str:
        return self.text

    def __enter__(self) -> "_NFile":
        return self

    def __exit__(self, *a: Any) -> None:
        return None

    def close(self) -> None:
        return None


class _NWFile(NativeObj):
    """A file opened for writing: the text lands in the virtual file system when it is closed."""

    def __init__(self, pipe: Any, path: str, text: str) -> None:
        self.pipe = pipe
        self.path = path
        self.text = text
        pipe.files[path] = text

    def write(self, t: Any) -> int:
        if not isinstance(t, str):
            raise PyExc("TypeError", "write() argument must be str")
        self.text += t
        self.pipe.files[self.path] = self.text
        return len(t)

    def __enter__(self) -> "_NWFile":
        return self

    def __exit__(self, *a: Any) -> None:
        return None

    def close(self) -> None:
        return None


class _NParser(NativeObj):
    def __init__(self, pipe: "Pipeline", grammar: str, stream: _NStream) -> None:
        self.pipe = pipe
        self.grammar = grammar
        self.stream = stream
        self.error_listeners: list[Any] = []
        self.parse_listeners: list[Any] = []

    def removeErrorListeners(self) -> None:
        self.error_listeners = []

    def addErrorListener(self, l: Any) -> None:
        self.error_listeners.append(l)

    def addParseListener(self, l: Any) -> None:
        self.parse_listeners.append(l)

    def start(self) -> Any:
        pipe = self.pipe
        I = pipe.I
        text = self.stream.lexer.inp.text
        if not isinstance(text, str):
            raise PyExc("TypeError", "source is not a string")
        tree = pipe.parse(self.grammar, text)
        if tree is None:
            # a syntax error: the runtime tells every error listener and carries on with an incomplete tree
            for l in self.error_listeners + self.stream.lexer.error_listeners:
                if isinstance(l, AObj):
                    m = pipe.repo.find_method(l.cls, "syntaxError")
                    if m is not None:
                        I.call_func(m, [l, self, None, 1, 0, "syntax error", None], {})
            return ACtx("start")
        for l in self.parse_listeners:
            pipe.walk(l, tree)
        return tree


class Pipeline:
    def __init__(self, repo: Repo, fold: Any, max_steps: int = 6_000_000) -> None:
        from .g4 import load_grammar
        self.repo = repo
        self.fold = fold
        self.I = Interp(repo, fold, max_steps=max_steps)
        self.grammars = {n: load_grammar(repo, n) for n in GRAMMARS}
        self._freq: dict[tuple[str, str], dict[str, int]] = {}
        self._parse_cache: dict[tuple[str, str], Any] = {}
        self.files: dict[str, str] = {}
        self.writable = False
        self.cwd = "/"  # relative paths of the virtual file system are resolved here
        I = self.I
        nat = I.natives
        nat["antlr4.InputStream"] = lambda t: _NInput(t)
        nat["antlr4.InputStream.InputStream"] = lambda t: _NInput(t)
        nat["antlr4.CommonTokenStream"] = lambda lx: _NStream(lx)
        nat["antlr4.CommonTokenStream.CommonTokenStream"] = lambda lx: _NStream(lx)
        for g in GRAMMARS:
            nat[f"explorerscript.antlr.{g}Lexer.{g}Lexer"] = (lambda inp, g=g: _NLexer(g, inp))
            nat[f"explorerscript.antlr.{g}Parser.{g}Parser"] = (lambda st, g=g: _NParser(self, g, st))
        nat["os.path.dirname"] = posixpath.dirname
        nat["os.path.basename"] = posixpath.basename
        nat["os.path.join"] = posixpath.join
        nat["os.path.normpath"] = posixpath.normpath
        nat["os.path.relpath"] = posixpath.relpath
        nat["os.path.realpath"] = lambda p: self.abs(p)
        nat["os.path.abspath"] = lambda p: self.abs(p)
        nat["os.getcwd"] = lambda: self.cwd
        nat["os.path.isfile"] = lambda p: self.abs(p) in self.files
        nat["os.path.exists"] = lambda p: self.abs(p) in self.files or any(f.startswith(self.abs(p).rstrip("/") + "/") for f in self.files)
        nat["os.path.isdir"] = lambda p: any(f.startswith(self.abs(p).rstrip("/") + "/") for f in self.files)
        nat["pathlib.PurePath"] = PurePosixPath  # the virtual file system is POSIX
        nat["pathlib.PurePosixPath"] = PurePosixPath
        nat["re.compile"] = re.compile
        nat["open"] = self._open
        I.vfs_open = self._open  # type: ignore[attr-defined]

    # ------------------------------------------------------------------ file system
    def abs(self, path: Any) -> str:
        return posixpath.normpath(posixpath.join(self.cwd, str(path)))

    def _open(self, path: Any, mode: str = "r", *a: Any, **kw: Any) -> Any:
        p = self.abs(path)
        if "w" in mode or "a" in mode:
            if not self.writable:
                raise Unsupported("the analysed code writes a file")
            if posixpath.dirname(p) != "/" and not any(f.startswith(posixpath.dirname(p).rstrip("/") + "/") for f in self.files):
                raise PyExc("FileNotFoundError", p)
            return _NWFile(self, p, self.files.get(p, "") if "a" in mode else "")
        if p not in self.files:
            if any(f.startswith(p.rstrip("/") + "/") for f in self.files):
                raise PyExc("IsADirectoryError", p)
            raise PyExc("FileNotFoundError", p)
        return _NFile(self.files[p])

    # ------------------------------------------------------------------ parsing
    def freq(self, grammar: str, rule: str) -> dict[str, int]:
        k = (grammar, rule)
        if k not in self._freq:
            self._freq[k] = self.grammars[grammar].element_frequencies(rule)
        return self._freq[k]

    def parse(self, grammar: str, text: str) -> ACtx | None:
        import bisect
        g = self.grammars[grammar]
        try:
            tree = g.parse_text("start", text)
        except AnalysisError:
            tree = None  # a character no lexer rule matches
        if tree is None:
            return None
        starts = [0] + [i + 1 for i, ch in enumerate(text) if ch == "\n"]

        def pos(p: int) -> tuple[int, int]:
            i = bisect.bisect_right(starts, p) - 1
            return i + 1, p - starts[i]

        def conv(n: Any) -> Any:
            if hasattr(n, "rule"):
                c = ACtx(n.rule)
                c.freq = self.freq(grammar, n.rule)
                c.children = [conv(k) for k in n.children]
                ft, lt = n.first_token(), n.last_token()
                if ft is not None:
                    c.line, c.column = pos(ft.pos)
                    c.stop_line, c.stop_column = pos(lt.pos)
                return c
            ln, col = pos(n.pos)
            return Tok(n.text, n.type, ln, col)
        return conv(tree)  # type: ignore[no-any-return]

    def walk(self, listener: Any, ctx: Any) -> None:
        """Listener events in the order the generated parser fires them for a parse listener."""
        I = self.I
        if isinstance(ctx, Tok):
            m = self.repo.find_method(listener.cls, "visitTerminal")
            if m is not None:
                I.call_func(m, [listener, ctx], {})
            return
        name = ctx.rule[0].upper() + ctx.rule[1:]
        for mn in ("enterEveryRule", "enter" + name):
            m = self.repo.find_method(listener.cls, mn)
            if m is not None:
                I.call_func(m, [listener, ctx], {})
        for ch in list(ctx.children):
            self.walk(listener, ch)
        for mn in ("exit" + name, "exitEveryRule"):
            m = self.repo.find_method(listener.cls, mn)
            if m is not None:
                I.call_func(m, [listener, ctx], {})

    # ------------------------------------------------------------------ entry points
    def compile_exps(self, text: str, file_name: str = "/proj/main.exps", files: dict[str, str] | None = None, lookup_paths: list[str] | None = None,
                     perf: str = "$PERF", compiler: AObj | None = None) -> AObj:
        """ExplorerScriptSsbCompiler(perf, lookup_paths).compile(text, file_name); the compiler object (routine_ops, routine_infos, named_coroutines, source_map).
        With `compiler`, compile() is called on that (already used) object instead of a new one."""
        self.files = {posixpath.normpath(k): v for k, v in (files or {}).items()}
        self.files[posixpath.normpath(file_name)] = text
        I = self.I
        I.steps = 0
        c = compiler if compiler is not None else I.new(self.repo.find_class("ExplorerScriptSsbCompiler"), perf, list(lookup_paths or []))
        m = self.repo.find_method(c.cls, "compile")
        I.call_func(m, [c, text, file_name], {})  # type: ignore[arg-type]
        return c

    def compile_ssbs(self, text: str) -> AObj:
        I = self.I
        I.steps = 0
        c = I.new(self.repo.find_class("SsbScriptSsbCompiler"))
        I.call_func(self.repo.find_method(c.cls, "compile"), [c, text], {})  # type: ignore[arg-type]
        return c

    def decompile_exps(self, routine_infos: list[Any], routine_ops: list[Any], named_coroutines: list[Any], perf: str = "$PERF") -> tuple[str, Any]:
        I = self.I
        I.steps = 0
        f = self.repo.find_class
        if named_coroutines and all(isinstance(n, AObj) for n in named_coroutines):
            coros = list(named_coroutines)  # already SsbCoroutine objects (as the decompile CLI builds them)
        else:
            coros = [I.new(f("SsbCoroutine"), i, n) for i, n in enumerate(named_coroutines) if isinstance(n, str)]
        dmc = I.new(f("DungeonModeConstants"), "DMODE_CLOSED", "DMODE_OPEN", "DMODE_REQUEST", "DMODE_OPEN_AND_REQUEST")
        d = I.new(f("ExplorerScriptSsbDecompiler"), routine_infos, routine_ops, coros, perf, dmc)
        out = I.call_func(self.repo.find_method(d.cls, "convert"), [d], {})  # type: ignore[arg-type]
        if not (isinstance(out, tuple) and len(out) == 2 and isinstance(out[0], str)):
            raise Unsupported("convert() did not return (text, source map)")
        return out[0], out[1]

    def decompile_ssbs(self, routine_infos: list[Any], routine_ops: list[Any], named_coroutines: list[Any]) -> tuple[str, Any]:
        I = self.I
        I.steps = 0
        f = self.repo.find_class
        coros = [I.new(f("SsbCoroutine"), i, n) for i, n in enumerate(named_coroutines) if isinstance(n, str)]
        d = I.new(f("SsbScriptSsbDecompiler"), routine_infos, routine_ops, coros)
        out = I.call_func(self.repo.find_method(d.cls, "convert"), [d], {})  # type: ignore[arg-type]
        if not (isinstance(out, tuple) and len(out) == 2 and isinstance(out[0], str)):
            raise Unsupported("convert() did not return (text, source map)")
        return out[0], out[1]

    # ------------------------------------------------------------------ building routine sets directly
    def op(self, offset: int, name: str, params: list[Any]) -> AObj:
        f = self.repo.find_class
        return self.I.new(f("SsbOperation"), offset, self.I.new(f("SsbOpCode"), -1, name), list(params))

    def info(self, kind: str, linked_to: int = 0, linked_name: Any = None) -> AObj:
        from .absint import ClassVal
        f = self.repo.find_class
        rt = self.I.getattr_(ClassVal(f("SsbRoutineType")), kind)
        return self.I.new(f("SsbRoutineInfo"), rt, linked_to, linked_name)

    def param(self, cls: str, *a: Any) -> AObj:
        return self.I.new(self.repo.find_class(cls), *a)
