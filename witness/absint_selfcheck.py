"""Self-check of esv.engine.absint: functions of a probe module are evaluated by the interpreter and by Python; results must agree.
Run: /venv/bin/python witness/absint_selfcheck.py   (uses a scratch tree /tmp/probe with explorerscript/_probe.py; triage tool, not a check)"""
import sys, importlib.util
sys.path.insert(0, "/verif")
from pathlib import Path
from esv.engine.loader import Repo
from esv.engine.consts import Folder
from esv.engine.absint import Interp, AObj, EnumVal, PyExc, Unsupported
root = Path("/tmp/probe")
repo = Repo(root)
I = Interp(repo, Folder(repo))
spec = importlib.util.spec_from_file_location("_probe", root / "explorerscript" / "_probe.py")
mod = importlib.util.module_from_spec(spec); sys.modules["_probe"] = mod; spec.loader.exec_module(mod)
def norm(v):
    if isinstance(v, AObj): return ("obj", v.cls.name)
    if isinstance(v, EnumVal): return ("enum", v.name)
    if isinstance(v, (list, tuple)): return type(v).__name__, [norm(x) for x in v]
    if isinstance(v, dict): return "dict", sorted((repr(norm(k)), norm(x)) for k, x in v.items())
    if isinstance(v, (set, frozenset)): return "set", sorted(repr(norm(x)) for x in v)
    if hasattr(v, "__class__") and v.__class__.__module__ == "_probe":
        import enum
        if isinstance(v, enum.Enum): return ("enum", v.name)
        return ("obj", v.__class__.__name__)
    return v
bad = 0
for name in [n for n in dir(mod) if n.startswith("t_")]:
    want = norm(getattr(mod, name)())
    try:
        got = norm(I.call_func(repo.func(f"explorerscript._probe:{name}"), [], {}))
    except (PyExc, Unsupported) as e:
        print("FAIL", name, type(e).__name__, e); bad += 1; continue
    if got != want:
        bad += 1
        w, g = want[1] if isinstance(want, tuple) else want, got[1] if isinstance(got, tuple) else got
        for i, (a, b) in enumerate(zip(w, g)):
            if a != b: print("DIFF", name, "item", i, "python:", a, "interpreter:", b)
        if len(w) != len(g): print("DIFF", name, "lengths", len(w), len(g))
    else:
        print("ok  ", name)
print("mismatching functions:", bad)
