"""Enumeration of program skeletons for the sequence-template analysis (bounded, deterministic)."""

from __future__ import annotations

import itertools
from typing import Any, Iterator

from ..engine.sta import Plain, Ctl, Jump, Call, Label, Hdr, If, Case, Default, Switch, Forever, While, For, With


class Names:
    def __init__(self) -> None:
        self.n = 0
        self.k = 0

    def p(self) -> Plain:
        self.n += 1
        return Plain(f"op{self.n}")

    def h(self) -> Hdr:
        self.k += 1
        return Hdr(self.k)


def _body(kind: str, nm: Names) -> list[Any]:
    """Body shapes; every predicate the block builders apply to a child list is constant on each of them."""
    if kind == "empty":
        return []
    if kind == "one":
        return [nm.p()]
    if kind == "two":
        return [nm.p(), nm.p()]
    if kind == "jump":
        return [Jump("top")]
    if kind == "jump_end":
        return [Jump("bottom")]
    if kind == "ret":
        return [Ctl("return")]
    if kind == "op_end":
        return [nm.p(), Ctl("end")]
    if kind == "hold":
        return [Ctl("hold")]
    if kind == "continue":
        return [Ctl("continue")]
    if kind == "op_continue":
        return [nm.p(), Ctl("continue")]
    if kind == "break_loop":
        return [Ctl("break_loop")]
    if kind == "op_break_loop":
        return [nm.p(), Ctl("break_loop")]
    if kind == "break":
        return [Ctl("break")]
    if kind == "op_break":
        return [nm.p(), Ctl("break")]
    if kind == "call":
        return [Call("top"), nm.p()]
    if kind == "with":
        return [With("actor", nm.p())]
    if kind == "if_continue":
        return [nm.p(), If(False, [nm.h()], [Ctl("continue")]), nm.p()]
    if kind == "ifnot_break_loop":
        return [If(True, [nm.h()], [Ctl("break_loop")]), nm.p()]
    if kind == "if_break":
        return [If(False, [nm.h()], [Ctl("break")]), nm.p()]
    if kind == "if_else":
        return [If(False, [nm.h()], [nm.p()], [], [nm.p()])]
    raise ValueError(kind)


def wrap(stmts: list[Any], nm: Names, ctx: str) -> list[Any]:
    """Place a construct in a routine: labels `top` (first) and `bottom` (last) exist when a body jumps to them."""
    uses_top = any("top" == getattr(x, "label", None) for x in _walk(stmts))
    uses_bottom = any("bottom" == getattr(x, "label", None) for x in _walk(stmts))
    pre: list[Any] = [Label("top")] if uses_top else []
    post: list[Any] = []
    if ctx == "mid":
        pre = pre + [nm.p()]
        post = [nm.p(), Ctl("end")]
    elif ctx == "tail":  # the construct is the last thing in the routine: exercises strip_last_label / implicit return
        pre = pre + [nm.p()]
    elif ctx == "bare":
        pass
    elif ctx == "before_op":
        post = [nm.p()]
    if uses_bottom:
        post = post + [Label("bottom")] if ctx in ("tail", "bare") else post[:-1] + [Label("bottom")] + post[-1:]
    return pre + stmts + post


def _walk(stmts: list[Any]) -> Iterator[Any]:
    for s in stmts:
        yield s
        if isinstance(s, If):
            yield from _walk(s.body)
            for _n, _h, b in s.elifs:
                yield from _walk(b)
            if s.els is not None:
                yield from _walk(s.els)
        elif isinstance(s, Switch):
            for it in s.items:
                yield from _walk(it.body)
        elif isinstance(s, (Forever, While, For)):
            yield from _walk(s.body)
        elif isinstance(s, With):
            yield from _walk([s.stmt])


IF_BODIES = ["empty", "one", "two", "jump", "ret", "op_end", "jump_end"]
ELSE_BODIES = [None, "empty", "one", "jump", "op_end"]
CASE_BODIES = ["empty", "one", "break", "op_break", "jump", "op_end", "if_break"]
LOOP_BODIES = ["empty", "one", "op_continue", "break_loop", "op_break_loop", "if_continue", "ifnot_break_loop", "op_end", "jump"]
CONTEXTS_Q = ["mid", "tail"]
CONTEXTS_T = ["mid", "tail", "bare", "before_op"]


def gen_if(thorough: bool) -> Iterator[tuple[str, list[list[Any]]]]:
    contexts = CONTEXTS_T if thorough else CONTEXTS_Q
    nh = [1, 2, 3] if thorough else [1, 2]
    for neg, n, body, els, ctx in itertools.product([False, True], nh, IF_BODIES, ELSE_BODIES, contexts):
        # without elseif
        nm = Names()
        s = If(neg, [nm.h() for _ in range(n)], _body(body, nm), [], _body(els, nm) if els is not None else None)
        yield "if", [wrap([s], nm, ctx)]
    elif_bodies = ["empty", "one", "jump", "op_end"] if not thorough else IF_BODIES
    for neg, eneg, body, ebody, els, ctx in itertools.product([False, True], [False, True], ["empty", "one", "jump", "ret"], elif_bodies,
                                                               [None, "one", "jump"], contexts):
        nm = Names()
        s = If(neg, [nm.h()], _body(body, nm), [(eneg, [nm.h(), nm.h()] if eneg else [nm.h()], _body(ebody, nm))], _body(els, nm) if els is not None else None)
        yield "if-elseif", [wrap([s], nm, ctx)]
    # two elseifs of mixed polarity
    for neg, e1, e2, els in itertools.product([False, True], [False, True], [False, True], [None, "one"]):
        for bodies in (("one", "one", "one"), ("jump", "one", "empty"), ("one", "jump", "ret")) if not thorough else itertools.product(["one", "jump", "empty"], repeat=3):
            nm = Names()
            s = If(neg, [nm.h()], _body(bodies[0], nm), [(e1, [nm.h()], _body(bodies[1], nm)), (e2, [nm.h()], _body(bodies[2], nm))],
                   _body(els, nm) if els is not None else None)
            yield "if-elseif-elseif", [wrap([s], nm, "mid")]


def gen_switch(thorough: bool) -> Iterator[tuple[str, list[list[Any]]]]:
    contexts = CONTEXTS_T if thorough else CONTEXTS_Q
    maxn = 3
    for n in range(0, maxn + 1):
        body_sets = itertools.product(CASE_BODIES, repeat=n)
        for bi, bodies in enumerate(body_sets):
            if not thorough and n == 3 and bi % 5 != 0:
                continue
            defaults: list[tuple[int, str] | None] = [None]
            for pos in range(n + 1):
                for db in (["empty", "one", "op_break"] if thorough or n < 3 else ["one"]):
                    defaults.append((pos, db))
            for d in defaults:
                for ctx in (contexts if n <= 2 else ["mid"]):
                    nm = Names()
                    items: list[Any] = []
                    for i, b in enumerate(bodies):
                        if d is not None and d[0] == i:
                            items.append(Default(_body(d[1], nm)))
                        items.append(Case([10 + i], _body(b, nm)))
                    if d is not None and d[0] == n:
                        items.append(Default(_body(d[1], nm)))
                    nm.k += 1
                    yield "switch", [wrap([Switch(nm.k, items)], nm, ctx)]


def gen_loops(thorough: bool) -> Iterator[tuple[str, list[list[Any]]]]:
    contexts = CONTEXTS_T if thorough else CONTEXTS_Q
    for body, ctx in itertools.product(LOOP_BODIES, contexts):
        nm = Names()
        yield "forever", [wrap([Forever(_body(body, nm))], nm, ctx)]
        for neg in (False, True):
            nm = Names()
            yield "while", [wrap([While(neg, nm.h(), _body(body, nm))], nm, ctx)]
        nm = Names()
        yield "for", [wrap([For(nm.p(), nm.h(), nm.p(), _body(body, nm))], nm, ctx)]
    # loops nested in loops: the inner loop must not capture the outer loop's continue/break_loop
    kinds = ["forever", "while", "whilenot", "for"]

    def loop(kind: str, body: list[Any], nm: Names) -> Any:
        if kind == "forever":
            return Forever(body)
        if kind == "while":
            return While(False, nm.h(), body)
        if kind == "whilenot":
            return While(True, nm.h(), body)
        return For(nm.p(), nm.h(), nm.p(), body)
    for outer, inner, after in itertools.product(kinds, kinds, ["continue", "break_loop", "one"]):
        for ibody in (["empty", "op_break_loop"] if not thorough else ["empty", "one", "op_break_loop", "op_continue"]):
            nm = Names()
            inner_l = loop(inner, _body(ibody, nm), nm)
            tail = [Ctl(after)] if after in ("continue", "break_loop") else [nm.p()]
            body = [nm.p(), inner_l, If(False, [nm.h()], tail), nm.p()]
            yield "loop-in-loop", [wrap([loop(outer, body, nm)], nm, "mid")]
    # switch inside a loop and loop inside a case: break vs break_loop vs continue
    for lk in kinds:
        nm = Names()
        sw = Switch(99, [Case([1], [nm.p(), Ctl("break")]), Case([2], [Ctl("continue")]), Case([3], [nm.p(), Ctl("break_loop")]), Default([nm.p()])])
        yield "switch-in-loop", [wrap([loop(lk, [nm.p(), sw, nm.p()], nm)], nm, "mid")]
        nm = Names()
        sw = Switch(98, [Case([1], [loop(lk, [nm.p(), If(False, [nm.h()], [Ctl("break_loop")])], nm), Ctl("break")]), Case([2], [nm.p()])])
        yield "loop-in-case", [wrap([sw], nm, "mid")]


def gen_misc(thorough: bool) -> Iterator[tuple[str, list[list[Any]]]]:
    P = Plain
    for kind in ("actor", "object", "performer"):
        for inner in ("op", "end", "jump"):
            nm = Names()
            st: Any = nm.p() if inner == "op" else Ctl("end") if inner == "end" else Jump("top")
            yield "with", [wrap([With(kind, st)], nm, "mid")]
            nm = Names()
            st = nm.p() if inner == "op" else Ctl("end") if inner == "end" else Jump("top")
            yield "with-in-if", [wrap([If(False, [nm.h()], [With(kind, st)]), nm.p()], nm, "mid")]
    # a with-block around a terminator is the whole body of a branch that is followed by other branches: the terminator belongs to the
    # actor, the routine goes on behind the if / switch / loop body
    for kind, term in (("actor", "end"), ("object", "hold"), ("performer", "return"), ("actor", "hold")):
        nm = Names()
        yield "with-in-if", [wrap([If(False, [nm.h()], [With(kind, Ctl(term))], [(False, [nm.h()], [nm.p()])], None), nm.p()], nm, "mid")]
        nm = Names()
        yield "with-in-if", [wrap([If(False, [nm.h()], [With(kind, Ctl(term))], [], [nm.p()]), nm.p()], nm, "mid")]
        nm = Names()
        yield "with-in-if", [wrap([If(False, [nm.h()], [nm.p()], [(True, [nm.h()], [With(kind, Ctl(term))])], [nm.p()]), nm.p()], nm, "mid")]
        nm = Names()
        yield "with-in-if", [wrap([If(True, [nm.h(), nm.h()], [nm.p(), With(kind, Ctl(term))], [], [With(kind, Ctl(term))]), nm.p()], nm, "mid")]
        nm = Names()
        yield "with-in-switch", [wrap([Switch(nm.k, [Case([1], [With(kind, Ctl(term)), Ctl("break")]), Case([2], [With(kind, Ctl(term))]), Default([nm.p()])]), nm.p()], nm, "mid")]
        nm = Names()
        yield "with-in-loop", [wrap([While(False, nm.h(), [With(kind, Ctl(term))]), nm.p()], nm, "mid")]
        nm = Names()
        yield "with-in-loop", [wrap([Forever([With(kind, Ctl(term)), If(False, [nm.h()], [Ctl("break_loop")])]), nm.p()], nm, "mid")]
    # labels, jumps, calls
    yield "labels", [[Jump("a"), Label("b"), P("x"), Ctl("end"), Label("a"), Jump("z"), P("y"), Jump("b"), Label("z")]]
    yield "labels", [[Label("a")]]
    yield "labels", [[P("x"), Label("a")]]
    yield "labels", [[Label("a"), P("x"), Jump("a")]]
    yield "labels", [[P("x"), Jump("e"), P("dead"), Label("e")]]
    yield "labels", [[P("x"), Jump("e"), Label("e"), P("y")]]
    yield "labels", [[Label("l1"), Label("l2"), P("x"), If(False, [Hdr(1)], [Jump("l1")]), Jump("l2")]]
    yield "labels", [[Call("f"), P("x"), Ctl("end"), Label("f"), P("y"), Ctl("return")]]
    yield "labels", [[Call("f"), Call("f"), Ctl("hold"), Label("f"), P("y")]]
    yield "labels", [[P("a"), If(False, [Hdr(1)], [Jump("in")]), Forever([P("b"), Label("in"), P("c")])]]
    yield "labels", [[If(False, [Hdr(1)], [P("a"), Jump("e")]), P("b"), Label("e")]]
    yield "labels", [[If(False, [Hdr(1)], [P("a")], [], [Jump("e")]), P("b"), Label("e")]]
    yield "labels", [[Switch(1, [Case([1], [Jump("e")]), Case([2], [P("a")])]), Label("e")]]
    yield "labels", [[Forever([P("a"), If(False, [Hdr(1)], [Jump("e")])]), Label("e")]]
    yield "labels", [[P("a"), Ctl("end"), Label("u"), Jump("v"), Label("v")]]
    yield "labels", [[Ctl("end"), Label("u"), P("a"), Ctl("return"), Label("w")], [Jump("u")]]
    # cross-routine jumps
    yield "cross-routine", [[P("a"), Jump("r1")], [P("b"), Label("r1"), P("c"), Ctl("end")]]
    yield "cross-routine", [[P("a"), Label("r0"), P("b"), Ctl("end")], [If(False, [Hdr(1)], [Jump("r0")]), P("c")]]
    yield "cross-routine", [[Jump("l")], [Switch(1, [Case([1], [P("a"), Ctl("end"), Label("l"), Ctl("break")]), Case([2], [P("b")])])]]
    yield "cross-routine", [[Jump("l")], [Forever([P("a"), Ctl("return"), Label("l"), Ctl("break_loop")])]]
    yield "cross-routine", [[If(False, [Hdr(1)], [Jump("l")]), P("z")], [If(False, [Hdr(2)], [P("a"), Ctl("hold"), Label("l"), P("b")])]]
    yield "cross-routine", [[Jump("l")], [P("a"), Ctl("end"), Label("l"), Jump("e"), Label("e")]]
    yield "cross-routine", [[Ctl("end")], [P("m")], [P("a"), Jump("t"), Label("t")]]
    # several routines, empty routines
    yield "routines", [[P("a")], [P("b"), Ctl("end")], [P("c"), Ctl("hold")]]
    yield "routines", [[P("a"), If(False, [Hdr(1)], [P("b")])], [If(True, [Hdr(2)], [P("c")]), P("d")]]
    # nesting
    for neg1, neg2 in itertools.product([False, True], repeat=2):
        nm = Names()
        inner = If(neg2, [nm.h()], [nm.p()], [], [nm.p()])
        yield "if-in-if", [wrap([If(neg1, [nm.h()], [nm.p(), inner]), nm.p()], nm, "mid")]
        nm = Names()
        inner = If(neg2, [nm.h()], [Jump("top")])
        yield "if-in-if", [wrap([If(neg1, [nm.h()], [inner], [], [nm.p()])], nm, "tail")]
        nm = Names()
        inner = If(neg2, [nm.h()], [nm.p()])
        yield "if-in-else", [wrap([If(neg1, [nm.h()], [nm.p()], [], [inner, nm.p()])], nm, "tail")]
        nm = Names()
        sw = Switch(77, [Case([1], [If(neg2, [nm.h()], [Ctl("break")]), nm.p()]), Default([nm.p()])])
        yield "if-in-case", [wrap([If(neg1, [nm.h()], [sw]), nm.p()], nm, "mid")]


def all_skeletons(thorough: bool) -> Iterator[tuple[str, list[list[Any]]]]:
    yield from gen_misc(thorough)
    yield from gen_loops(thorough)
    yield from gen_if(thorough)
    yield from gen_switch(thorough)


# --------------------------------------------------------------------------- flat programs (the premise of C13)


def _flat_items(nm: Names, sw: list[int]) -> dict[str, Any]:
    """Constructors of the statement kinds C13 speaks about; bodies hold plain statements only, cases end in break."""
    def body(n: int) -> list[Any]:
        return [nm.p() for _ in range(n)]

    def switch(ncase: int, default: bool, group: bool, kase: int = 0) -> Any:
        sw[0] += 1
        items: list[Any] = []
        v = 10 * sw[0]
        for i in range(ncase):
            vals = [v + 2 * i, v + 2 * i + 1] if (group and i == 0) else [v + 2 * i]
            items.append(Case(vals, body(1 + (i % 2)) + [Ctl("break")]))
        if default:
            items.append(Default(body(1) + [Ctl("break")]))
        return Switch(sw[0], items)

    def switch_default_at(pos: int, ncase: int) -> Any:
        sw[0] += 1
        v = 10 * sw[0]
        items: list[Any] = [Case([v + 2 * i], body(1 + (i % 2)) + [Ctl("break")]) for i in range(ncase)]
        items.insert(pos, Default(body(1) + [Ctl("break")]))
        return Switch(sw[0], items)

    def switch_empty_case(first_empty: bool) -> Any:
        """a case that only breaks, in front of the default block (first) or behind it (last)"""
        sw[0] += 1
        v = 10 * sw[0]
        items: list[Any] = [Default(body(1) + [Ctl("break")]), Case([v + 2], body(2) + [Ctl("break")])]
        if first_empty:
            items.insert(0, Case([v], [Ctl("break")]))
        else:
            items.append(Case([v + 4], [Ctl("break")]))
        return Switch(sw[0], items)

    return {
        "switch-empty-case-first-then-default": lambda: switch_empty_case(True),
        "switch-default-then-empty-case-last": lambda: switch_empty_case(False),
        "switch-default-first": lambda: switch_default_at(0, 2),
        "switch-default-middle": lambda: switch_default_at(1, 2),
        "switch1-default-first": lambda: switch_default_at(0, 1),
        "if2-elseif-elseif3": lambda: If(False, [nm.h()], body(2), [(False, [nm.h()], body(1)), (False, [nm.h()], body(3))]),
        "if3-elseif2-elseif3": lambda: If(False, [nm.h()], body(3), [(False, [nm.h()], body(2)), (False, [nm.h()], body(3))]),
        "if-elseif3": lambda: If(False, [nm.h()], body(1), [(False, [nm.h()], body(3))]),
        "plain": lambda: nm.p(),
        "with": lambda: With("actor", nm.p()),
        "if": lambda: If(False, [nm.h()], body(1)),
        "if2": lambda: If(False, [nm.h()], body(2)),
        "ifnot": lambda: If(True, [nm.h()], body(1)),
        "if-or": lambda: If(False, [nm.h(), nm.h()], body(1)),
        "if-else": lambda: If(False, [nm.h()], body(1), [], body(2)),
        "ifnot-else": lambda: If(True, [nm.h()], body(2), [], body(1)),
        "if-elseif": lambda: If(False, [nm.h()], body(1), [(False, [nm.h()], body(1))]),
        "if-elseif2": lambda: If(False, [nm.h()], body(1), [(False, [nm.h()], body(2))]),
        "if2-elseif": lambda: If(False, [nm.h()], body(2), [(False, [nm.h()], body(1))]),
        "if2-else1": lambda: If(False, [nm.h()], body(2), [], body(1)),
        "if-elseif-else": lambda: If(False, [nm.h()], body(1), [(False, [nm.h()], body(2))], body(1)),
        "if-elseifnot-else": lambda: If(False, [nm.h()], body(1), [(True, [nm.h()], body(1))], body(1)),
        "if-or-elseif-or-else": lambda: If(False, [nm.h(), nm.h()], body(1), [(False, [nm.h(), nm.h()], body(1))], body(1)),
        "if-elseif-elseif-else": lambda: If(False, [nm.h()], body(1), [(False, [nm.h()], body(1)), (False, [nm.h()], body(1))], body(1)),
        "switch1": lambda: switch(1, False, False),
        "switch1-default": lambda: switch(1, True, False),
        "switch2": lambda: switch(2, False, False),
        "switch2-default": lambda: switch(2, True, False),
        "switch3-default": lambda: switch(3, True, False),
        "switch-grouped": lambda: switch(2, False, True),
        "switch-grouped-default": lambda: switch(2, True, True),
    }


FLAT_KINDS = ["switch-empty-case-first-then-default", "switch-default-then-empty-case-last", "switch-default-first", "switch-default-middle", "switch1-default-first", "if2-elseif-elseif3", "if3-elseif2-elseif3", "if-elseif3", "plain", "with", "if", "if2", "ifnot", "if-or", "if-else", "ifnot-else", "if-elseif", "if-elseif-else", "if-elseifnot-else", "if-or-elseif-or-else",
              "if-elseif-elseif-else", "switch1", "switch1-default", "switch2", "switch2-default", "switch3-default", "switch-grouped", "switch-grouped-default"]


def gen_flat(thorough: bool) -> Iterator[tuple[str, list[list[Any]]]]:
    """Routines that are sequences of plain statements, if/elseif/else chains and switches with break-terminated cases, ending in one terminator.
    quick: every single kind and every ordered pair (framed by plain ops or not); thorough: triples as well."""
    terms = ["end", "return", "hold"]
    t = 0
    for n in (1, 2, 3) if thorough else (1, 2):
        for combo in itertools.product(FLAT_KINDS, repeat=n):
            if n == 3 and sum(1 for c in combo if c.startswith(("plain", "with"))) > 1:
                continue
            if n >= 2 and all(c in ("plain", "with") for c in combo):
                continue
            for lead, trail in ((False, False), (True, True)) if n < 3 else ((True, False),):
                nm = Names()
                sw = [0]
                mk = _flat_items(nm, sw)
                body: list[Any] = []
                if lead:
                    body.append(nm.p())
                for c in combo:
                    body.append(mk[c]())
                if trail:
                    body.append(nm.p())
                t += 1
                body.append(Ctl(terms[t % 3]))
                yield "flat:" + "+".join(combo), [body]
    # a switch-type operation written as a plain statement and a switch that has only a default (switch vertices without a case edge),
    # in front of and behind every kind; routines without ops (`alias previous;`) in front of a routine with control flow
    for c in FLAT_KINDS:
        for special in ("ProcessSpecial", "message_Menu", "default-only"):
            for first in (True, False):
                nm = Names()
                sw = [0]
                mk = _flat_items(nm, sw)
                if special == "default-only":
                    sw[0] += 1
                    sp: Any = Switch(sw[0], [Default([nm.p(), Ctl("break")])])
                else:
                    sp = Plain(special)
                t += 1
                body = [nm.p()] + ([sp, mk[c]()] if first else [mk[c](), sp]) + [Ctl(terms[t % 3])]
                yield f"flat:caseless-{special}+{c}" if first else f"flat:{c}+caseless-{special}", [body]
        for n_alias in (1, 2):
            nm = Names()
            sw = [0]
            mk = _flat_items(nm, sw)
            t += 1
            yield f"flat:alias{n_alias}+{c}", [[nm.p(), Ctl("end")]] + [[Ctl("alias previous")] for _ in range(n_alias)] + [([nm.p()] if n_alias == 2 else []) + [mk[c](), Ctl(terms[t % 3])]]


def gen_nested(thorough: bool) -> Iterator[tuple[str, list[list[Any]]]]:
    """A chain or switch nested in the arm of an if (plain, `||`, negated, with else), followed by another construct: the shapes in which the
    structuring passes rewrite one construct while handles of the next one are alive."""
    inners = ["if", "if-else", "if-elseif", "if-elseif2", "if2-elseif", "if-elseif-else", "ifnot-else", "switch1-default", "switch2", "if-or"]
    followers = ["none", "plain", "if", "if-else", "if2-else1", "ifnot-else", "if-elseif-else", "switch1-default", "switch2-default"]
    outers = ["if", "if-or", "ifnot", "if-else-then", "if-else-else", "elseif-arm"]
    if not thorough:
        followers = ["none", "if-else", "if2-else1", "ifnot-else", "switch1-default"]
    t = 0
    for outer in outers:
        for inner in inners:
            for fol in followers:
                for extra in (0, 1):
                    nm = Names()
                    sw = [0]
                    mk = _flat_items(nm, sw)
                    arm = [mk[inner]()] + ([nm.p()] if extra else [])
                    if outer == "if":
                        first: Any = If(False, [nm.h()], arm)
                    elif outer == "if-or":
                        first = If(False, [nm.h(), nm.h()], arm)
                    elif outer == "ifnot":
                        first = If(True, [nm.h()], arm)
                    elif outer == "if-else-then":
                        first = If(False, [nm.h()], arm, [], [nm.p()])
                    elif outer == "if-else-else":
                        first = If(False, [nm.h()], [nm.p()], [], arm)
                    else:
                        first = If(False, [nm.h()], [nm.p()], [(False, [nm.h()], arm)], [nm.p()])
                    body: list[Any] = [first]
                    if fol == "plain":
                        body.append(nm.p())
                    elif fol != "none":
                        body.append(mk[fol]())
                    t += 1
                    body.append(Ctl(("end", "return", "hold")[t % 3]))
                    yield f"nested:{outer}", [body]


def gen_extra(thorough: bool) -> Iterator[tuple[str, list[list[Any]]]]:
    """Shapes outside the product families: a routine that starts with (nested) loops, calls of labels before and after the call, several routines with
    the same switch shape, shared switch branches."""
    P = Plain
    # routines starting with loops
    for outer in ("forever", "while", "whilenot"):
        for inner in ("while", "whilenot", "forever-break", "for"):
            for tail in ("op", "none"):
                nm = Names()
                if inner == "while":
                    inn: Any = While(False, nm.h(), [nm.p()])
                elif inner == "whilenot":
                    inn = While(True, nm.h(), [nm.p()])
                elif inner == "for":
                    inn = For(nm.p(), nm.h(), nm.p(), [nm.p()])
                else:
                    inn = Forever([nm.p(), If(False, [nm.h()], [Ctl("break_loop")])])
                body = [inn] + ([nm.p()] if tail == "op" else [])
                if outer == "forever":
                    top: Any = Forever(body + [If(False, [nm.h()], [Ctl("break_loop")])])
                elif outer == "while":
                    top = While(False, nm.h(), body)
                else:
                    top = While(True, nm.h(), body)
                yield "loop-first", [[top, nm.p(), Ctl("end")]]
                yield "loop-first", [[top]]
    # calls
    yield "calls", [[Label("l"), P("x"), Call("l"), Ctl("return")]]
    yield "calls", [[P("x"), Call("l"), Ctl("return"), Label("l"), P("y"), Ctl("return")]]
    yield "calls", [[Label("l"), P("x"), If(False, [Hdr(1)], [Call("l")]), Ctl("end")]]
    yield "calls", [[Label("l"), P("x"), If(False, [Hdr(1)], [Call("l"), P("y")], [], [P("z")]), Ctl("end")]]
    yield "calls", [[P("w"), Label("l"), P("x"), Forever([Call("l"), If(False, [Hdr(1)], [Ctl("break_loop")])]), Ctl("end")]]
    yield "calls", [[Call("s"), P("a"), Call("s"), Ctl("end"), Label("s"), P("sub"), Ctl("return")]]
    yield "calls", [[Label("s"), P("sub"), If(False, [Hdr(1)], [Ctl("return")]), Call("s"), P("after"), Ctl("return")]]
    # the same switch shape in several routines; shared branches
    def shared(k: int, names: tuple[str, str]) -> list[Any]:
        return [Switch(k, [Case([1], [Jump(f"x{k}")]), Case([2], [P(names[1]), Ctl("break")]), Case([3], [Label(f"x{k}"), P(names[0]), Ctl("break")])]), Ctl("end")]
    yield "same-shape-routines", [shared(1, ("a", "b")), shared(2, ("c", "d")), shared(3, ("e", "f"))]
    yield "same-shape-routines", [shared(1, ("a", "b")), [P("m"), Ctl("end")], shared(2, ("c", "d"))]

    # cases that only break / share the default's branch, not adjacent to each other
    yield "switch-shared-empty", [[Switch(1, [Case([1], [Ctl("break")]), Case([2], [P("a"), Ctl("break")]), Case([3], [Ctl("break")])]), P("z"), Ctl("end")]]
    yield "switch-shared-empty", [[Switch(1, [Case([1], [Ctl("break")]), Case([2], [P("a"), Ctl("break")]), Case([3], [Ctl("break")]), Case([4], [P("b"), Ctl("break")]),
                                              Case([5], [Ctl("break")])]), P("z"), Ctl("end")]]
    yield "switch-shared-empty", [[Switch(1, [Case([0], []), Default([P("x"), Ctl("break")]), Case([1], [P("y"), Ctl("break")]), Case([2], [Jump("sx")])]), P("z"), Label("sx"),
                                   Ctl("end")]]
    yield "switch-shared-empty", [[Switch(1, [Case([1], [P("a"), Ctl("break")]), Default([Ctl("break")]), Case([3], [Ctl("break")]), Case([4], [P("b")])]), P("z"), Ctl("end")]]
    # a loop that is also entered in the middle of its body
    yield "loop-entered-in-the-middle", [[P("p"), Jump("mid"), Forever([P("a"), If(False, [Hdr(1)], [Ctl("continue")]), Label("mid"), P("b"), If(False, [Hdr(2)], [Ctl("break_loop")])]),
                                          P("q"), Ctl("end")]]
    yield "loop-entered-in-the-middle", [[If(False, [Hdr(3)], [Jump("mid")]), Forever([P("a"), Label("mid"), P("b"), If(False, [Hdr(2)], [Ctl("break_loop")]), P("c")]), P("q"), Ctl("end")]]
    yield "loop-entered-in-the-middle", [[P("p"), Jump("mid"), While(False, Hdr(1), [P("a"), Label("mid"), P("b")]), P("q"), Ctl("end")]]
    yield "loop-entered-in-the-middle", [[If(False, [Hdr(1)], [P("pre"), Jump("inside")]),
                                          Forever([P("a"), If(False, [Hdr(2)], [Ctl("continue")]), Label("inside"), If(False, [Hdr(3)], [Ctl("break_loop")]), P("b")]),
                                          P("c"), Ctl("end")]]
    yield "loop-entered-in-the-middle", [[If(False, [Hdr(1)], [Jump("inside")]),
                                          Forever([If(False, [Hdr(2)], [P("a"), Ctl("continue")]), Label("inside"), P("b"), If(True, [Hdr(3)], [Ctl("break_loop")])]),
                                          Ctl("end")]]

    def ifs(k: int, names: tuple[str, str, str]) -> list[Any]:
        return [If(False, [Hdr(k)], [P(names[0])], [], [P(names[1])]), P(names[2]), Ctl("end")]
    yield "same-shape-routines", [ifs(1, ("a", "b", "c")), ifs(2, ("d", "e", "f"))]

    def loops(k: int, names: tuple[str, str]) -> list[Any]:
        return [Forever([P(names[0]), If(False, [Hdr(k)], [Ctl("break_loop")])]), P(names[1]), Ctl("end")]
    yield "same-shape-routines", [loops(1, ("a", "b")), loops(2, ("c", "d"))]
    # a switch inside a loop: the branches that only `break;` lead to the end of the switch, which is the loop's next round
    def switches(k: int) -> list[tuple[str, Any]]:
        return [
            ("one-case", Switch(k, [Case([1], [P("a"), Ctl("break")])])),
            ("fall-into-break-only", Switch(k, [Case([1], [P("a"), Ctl("break")]), Case([2], [P("b")]), Case([3], [Ctl("break")])])),
            ("fall-chain", Switch(k, [Case([1], [P("a")]), Case([2], [P("b")]), Case([3], [P("c"), Ctl("break")])])),
            ("default-last", Switch(k, [Case([1], [P("a"), Ctl("break")]), Default([P("d"), Ctl("break")])])),
            ("break-only-and-default", Switch(k, [Case([1], [Ctl("break")]), Case([2], [P("b")]), Default([Ctl("break")])])),
            ("leaves-the-loop", Switch(k, [Case([1], [P("a"), Ctl("break")]), Case([2], [Ctl("break_loop")]), Case([3], [Ctl("continue")])])),
        ]
    for sname, sw in switches(1):
        for loop in ("forever", "while"):
            for inside_if in (False, True):
                for tail in (False, True):
                    body = [sw] + ([P("t")] if tail else [])
                    lp: Any = Forever(body) if loop == "forever" else While(False, Hdr(7), body)
                    stmts = [If(False, [Hdr(8)], [lp])] if inside_if else [lp]
                    yield "switch-in-loop", [stmts + [Ctl("hold")]]
    # a loop inside a loop whose body is an if chain with a break: every branch of the chain leads to a label written before it
    for inner_neg in (False, True):
        for if_neg in (False, True):
            for chain in ("else", "elseif-else", "elseif"):
                nm = Names()
                br = [Ctl("break_loop")]
                if chain == "else":
                    iff: Any = If(if_neg, [nm.h()], br, [], [nm.p()])
                elif chain == "elseif-else":
                    iff = If(if_neg, [nm.h()], br, [(False, [nm.h()], [nm.p()])], [nm.p()])
                else:
                    iff = If(if_neg, [nm.h()], br, [(False, [nm.h()], [nm.p()])])
                yield "loop-in-loop-if-chain", [[Forever([nm.p(), While(inner_neg, nm.h(), [iff])]), Ctl("end")]]
                yield "loop-in-loop-if-chain", [[Forever([nm.p(), While(inner_neg, nm.h(), [iff, nm.p()]), nm.p()]), Ctl("end")]]


def gen_random(thorough: bool) -> Iterator[tuple[str, list[list[Any]]]]:
    """A fixed pseudo-random sample of deeper mixed programs (nesting up to 3: if chains with || and not, switches with fall-through, default
    anywhere and grouped cases, forever / while / for with continue and break_loop, labels with jump and call, terminators anywhere).
    The generator is seeded with constants, so the sample is the same table on every run; it complements the exhaustive families, whose
    bounds it exceeds in depth and mixture."""
    import random

    class G:
        def __init__(self, seed: int) -> None:
            self.r = random.Random(seed)
            self.nm = Names()
            self.labels: list[str] = []
            self.sw = 0

        def block(self, depth: int, in_loop: bool, in_case: bool, lo: int = 0, hi: int = 3) -> list[Any]:
            return [self.stmt(depth, in_loop, in_case) for _ in range(self.r.randint(lo, hi))]

        def stmt(self, depth: int, in_loop: bool, in_case: bool) -> Any:
            r = self.r.random()
            if depth <= 0 or r < 0.36:
                k = self.r.random()
                if in_loop and k < 0.10:
                    return Ctl("continue")
                if in_loop and k < 0.20:
                    return Ctl("break_loop")
                if k < 0.26 and self.labels:
                    return Jump(self.r.choice(self.labels)) if self.r.random() < 0.7 else Call(self.r.choice(self.labels))
                if k < 0.31:
                    return Ctl(self.r.choice(["return", "end", "hold"]))
                return self.nm.p()
            if r < 0.62:
                hdrs = [self.nm.h()] + ([self.nm.h()] if self.r.random() < 0.2 else [])
                elifs = []
                while self.r.random() < 0.3:
                    elifs.append((self.r.random() < 0.25, [self.nm.h()], self.block(depth - 1, in_loop, in_case)))
                els = self.block(depth - 1, in_loop, in_case) if self.r.random() < 0.5 else None
                return If(self.r.random() < 0.25, hdrs, self.block(depth - 1, in_loop, in_case), elifs, els)
            if r < 0.76:
                self.sw += 1
                items: list[Any] = []
                v = 0
                for _ in range(self.r.randint(1, 3)):
                    vals = []
                    for _ in range(1 if self.r.random() < 0.75 else 2):
                        v += 1
                        vals.append(v)
                    body = self.block(depth - 1, in_loop, True, 0 if items else 0, 2)
                    if self.r.random() < 0.7:
                        body.append(Ctl("break"))
                    items.append(Case(vals, body))
                if self.r.random() < 0.5:
                    d = Default(self.block(depth - 1, in_loop, True, 1, 2) + ([Ctl("break")] if self.r.random() < 0.5 else []))
                    items.insert(self.r.randint(0, len(items)), d)
                # the compiler rejects a switch that ends in an empty case
                last = items[-1]
                if not last.body:
                    last.body.append(Ctl("break"))
                return Switch(self.sw, items)
            if r < 0.86:
                return Forever(self.block(depth - 1, True, False, 1, 3))
            if r < 0.94:
                return While(self.r.random() < 0.3, self.nm.h(), self.block(depth - 1, True, False, 1, 3))
            return For(self.nm.p(), self.nm.h(), self.nm.p(), self.block(depth - 1, True, False, 1, 2))

        def routine(self, rid: int) -> list[Any]:
            self.labels = [f"l{rid}_{i}" for i in range(self.r.randint(0, 2))]
            pending = list(self.labels)
            out: list[Any] = []
            for _ in range(self.r.randint(1, 4)):
                if pending and self.r.random() < 0.5:
                    out.append(Label(pending.pop(0)))
                out.append(self.stmt(3, False, False))
            for lb in pending:
                out.append(Label(lb))
                out.append(self.nm.p())
            out.append(Ctl(self.r.choice(["end", "return", "hold"])))
            return out
    from ..engine.sta import show
    want = 600 if thorough else 80
    seed = 0
    while want > 0:
        g = G(77_000 + seed)
        seed += 1
        prog = [g.routine(i) for i in range(g.r.randint(1, 2))]
        if sum(len(show(r)) for r in prog) > 700:
            continue  # very large samples cost minutes of evaluation each; the size bound is part of the table's definition
        want -= 1
        yield "random-mixed", prog
