"""Small AST queries shared by the rule modules."""

from __future__ import annotations

import ast
from typing import Any, Iterator

from .loader import Repo, Cls, Func, dotted, walk_no_nested, AnalysisError


def params_of(fn: ast.FunctionDef, skip_self: bool = True) -> list[str]:
    names = [a.arg for a in fn.args.posonlyargs + fn.args.args]
    if skip_self and names and names[0] in ("self", "cls"):
        names = names[1:]
    names += [a.arg for a in fn.args.kwonlyargs]
    return names


def returns_of(fn: ast.FunctionDef) -> list[ast.Return]:
    return [n for n in walk_no_nested(fn) if isinstance(n, ast.Return)]


def single_return_expr(fn: ast.FunctionDef) -> ast.expr | None:
    rs = [r for r in returns_of(fn) if r.value is not None]
    return rs[0].value if len(rs) == 1 else None


def self_attr(e: ast.AST, selfname: str = "self") -> str | None:
    if isinstance(e, ast.Attribute) and isinstance(e.value, ast.Name) and e.value.id == selfname:
        return e.attr
    return None


def self_assigns(fn: ast.FunctionDef) -> list[tuple[str, ast.expr, ast.stmt]]:
    """``self.attr = value`` statements in a method (attr, value, statement)."""
    out = []
    for n in walk_no_nested(fn):
        if isinstance(n, ast.Assign):
            for t in n.targets:
                a = self_attr(t)
                if a:
                    out.append((a, n.value, n))
                if isinstance(t, (ast.Tuple, ast.List)):
                    for el in t.elts:
                        a2 = self_attr(el)
                        if a2:
                            out.append((a2, n.value, n))
        elif isinstance(n, ast.AnnAssign) and n.value is not None:
            a = self_attr(n.target)
            if a:
                out.append((a, n.value, n))
        elif isinstance(n, ast.AugAssign):
            a = self_attr(n.target)
            if a:
                out.append((a, n.value, n))
    return out


def ctor_param_attrs(repo: Repo, cls: Cls, _depth: int = 0) -> dict[str, str]:
    """Map constructor parameter name -> attribute that stores it (follows ``super().__init__(...)``)."""
    f = repo.find_method(cls, "__init__")
    if f is None or _depth > 5:
        return {}
    fn = f.node
    out: dict[str, str] = {}
    ps = params_of(fn)
    for attr, val, _st in self_assigns(fn):
        if isinstance(val, ast.Name) and val.id in ps and val.id not in out:
            out[val.id] = attr
    # super().__init__(a, b) / Base.__init__(self, a, b)
    for n in walk_no_nested(fn):
        if isinstance(n, ast.Call) and isinstance(n.func, ast.Attribute) and n.func.attr == "__init__":
            recv = n.func.value
            base: Cls | None = None
            args = list(n.args)
            if isinstance(recv, ast.Call) and dotted(recv.func) == "super":
                mro = repo.mro(f.cls) if f.cls else []
                base = mro[1] if len(mro) > 1 else None
            elif dotted(recv):
                r = repo.resolve(f.mod, dotted(recv) or "")
                if r and r[0] == "class":
                    base = r[1]  # type: ignore[assignment]
                    args = args[1:]
            if base is None:
                continue
            bf = repo.find_method(base, "__init__")
            if bf is None:
                continue
            bps = params_of(bf.node)
            bmap = ctor_param_attrs(repo, bf.cls or base, _depth + 1)
            for i, a in enumerate(args):
                if isinstance(a, ast.Name) and a.id in ps and i < len(bps) and bps[i] in bmap:
                    out.setdefault(a.id, bmap[bps[i]])
            for kw in n.keywords:
                if kw.arg and isinstance(kw.value, ast.Name) and kw.value.id in ps and kw.arg in bmap:
                    out.setdefault(kw.value.id, bmap[kw.arg])
    return out


def all_init_attrs(repo: Repo, cls: Cls) -> set[str]:
    out: set[str] = set()
    for k in repo.mro(cls):
        if "__init__" in k.methods:
            out.update(a for a, _v, _s in self_assigns(k.methods["__init__"]))
            # only continue upwards if super().__init__ is called
            if not any(isinstance(n, ast.Call) and isinstance(n.func, ast.Attribute) and n.func.attr == "__init__"
                       for n in walk_no_nested(k.methods["__init__"])):
                break
    return out


def bind_call_args(call: ast.Call, param_names: list[str]) -> dict[str, ast.expr]:
    """Bind positional/keyword arguments of a call to parameter names."""
    out: dict[str, ast.expr] = {}
    for i, a in enumerate(call.args):
        if isinstance(a, ast.Starred):
            raise AnalysisError("starred call argument")
        if i < len(param_names):
            out[param_names[i]] = a
    for kw in call.keywords:
        if kw.arg is None:
            raise AnalysisError("**kwargs call argument")
        out[kw.arg] = kw.value
    return out


def names_in(e: ast.AST) -> set[str]:
    return {n.id for n in ast.walk(e) if isinstance(n, ast.Name)}


def subscripts_of(e: ast.AST, base: str) -> list[ast.Subscript]:
    """``base[...]`` subscripts inside e (base is a plain name)."""
    return [n for n in ast.walk(e) if isinstance(n, ast.Subscript) and isinstance(n.value, ast.Name) and n.value.id == base]


def const_index(s: ast.Subscript) -> Any:
    if isinstance(s.slice, ast.Constant):
        return s.slice.value
    if isinstance(s.slice, ast.UnaryOp) and isinstance(s.slice.op, ast.USub) and isinstance(s.slice.operand, ast.Constant):
        return -s.slice.operand.value
    return None


def key_path(e: ast.AST, base: str) -> tuple[Any, ...] | None:
    """json_d["a"]["b"] -> ("a", "b") when rooted at name ``base``."""
    path: list[Any] = []
    cur = e
    while isinstance(cur, ast.Subscript):
        idx = const_index(cur)
        if idx is None:
            return None
        path.append(idx)
        cur = cur.value
    if isinstance(cur, ast.Name) and cur.id == base:
        return tuple(reversed(path))
    return None


def find_key_paths(e: ast.AST, base: str) -> list[tuple[Any, ...]]:
    """All maximal constant subscript chains rooted at ``base`` inside e."""
    out = []
    covered: set[int] = set()
    for n in ast.walk(e):
        if isinstance(n, ast.Subscript) and id(n) not in covered:
            kp = key_path(n, base)
            if kp is not None:
                out.append(kp)
                cur: ast.AST = n
                while isinstance(cur, ast.Subscript):
                    covered.add(id(cur))
                    cur = cur.value
    return out


def annotation_text(cls: Cls, attr: str) -> str | None:
    for st in cls.node.body:
        if isinstance(st, ast.AnnAssign) and isinstance(st.target, ast.Name) and st.target.id == attr:
            return ast.unparse(st.annotation)
    return None


def iter_stmts(body: list[ast.stmt]) -> Iterator[ast.stmt]:
    for st in body:
        yield st
        for fld in ("body", "orelse", "finalbody"):
            sub = getattr(st, fld, None)
            if isinstance(sub, list) and sub and isinstance(sub[0], ast.stmt):
                yield from iter_stmts(sub)
        if isinstance(st, ast.Try):
            for h in st.handlers:
                yield from iter_stmts(h.body)


def single_assign_locals(fn: ast.FunctionDef) -> dict[str, ast.expr]:
    """Locals bound exactly once by a plain assignment (not in a loop target / augmented)."""
    counts: dict[str, int] = {}
    vals: dict[str, ast.expr] = {}
    for n in walk_no_nested(fn):
        tgts: list[ast.AST] = []
        val = None
        if isinstance(n, ast.Assign):
            tgts, val = list(n.targets), n.value
        elif isinstance(n, ast.AnnAssign) and n.value is not None:
            tgts, val = [n.target], n.value
        elif isinstance(n, ast.AugAssign):
            tgts, val = [n.target], None
        elif isinstance(n, (ast.For, ast.comprehension)):
            tgts, val = [n.target], None
        elif isinstance(n, ast.NamedExpr):
            tgts, val = [n.target], n.value
        for t in tgts:
            for nm in ast.walk(t):
                if isinstance(nm, ast.Name) and isinstance(t, ast.Name):
                    counts[nm.id] = counts.get(nm.id, 0) + 1
                    if val is not None:
                        vals[nm.id] = val
                elif isinstance(nm, ast.Name) and isinstance(nm.ctx, ast.Store):
                    counts[nm.id] = counts.get(nm.id, 0) + 2  # tuple targets: not inlined
    params = set(params_of(fn, skip_self=False))
    out = {k: v for k, v in vals.items() if counts.get(k) == 1 and k not in params}
    # a, b, c = seq[lo:hi]  /  a, b = seq  /  a, b = (x, y): element-wise definitions
    for n in walk_no_nested(fn):
        if isinstance(n, ast.Assign) and len(n.targets) == 1 and isinstance(n.targets[0], (ast.Tuple, ast.List)):
            tg = n.targets[0].elts
            if not all(isinstance(t, ast.Name) for t in tg):
                continue
            names = [t.id for t in tg]  # type: ignore[attr-defined]
            if any(counts.get(nm) != 2 or nm in params for nm in names):
                continue
            v = n.value
            if isinstance(v, (ast.Tuple, ast.List)) and len(v.elts) == len(names):
                for nm, el in zip(names, v.elts):
                    out[nm] = el
            elif isinstance(v, ast.Subscript) and isinstance(v.slice, ast.Slice) and v.slice.step is None:
                lo = v.slice.lower.value if isinstance(v.slice.lower, ast.Constant) else 0 if v.slice.lower is None else None
                if isinstance(lo, int):
                    for i, nm in enumerate(names):
                        out[nm] = ast.Subscript(value=v.value, slice=ast.Constant(lo + i), ctx=ast.Load())
            elif isinstance(v, ast.Name):
                for i, nm in enumerate(names):
                    out[nm] = ast.Subscript(value=v, slice=ast.Constant(i), ctx=ast.Load())
    return out


class _Inliner(ast.NodeTransformer):
    def __init__(self, env: dict[str, ast.expr], depth: int = 0) -> None:
        self.env = env
        self.depth = depth

    def visit_Name(self, node: ast.Name) -> ast.AST:
        if isinstance(node.ctx, ast.Load) and node.id in self.env and self.depth < 6:
            import copy
            return _Inliner(self.env, self.depth + 1).visit(copy.deepcopy(self.env[node.id]))
        return node


def inline_locals(fn: ast.FunctionDef, e: ast.expr, keep: tuple[str, ...] = ()) -> ast.expr:
    """Replace single-assignment locals in ``e`` by their defining expressions (bounded depth)."""
    import copy
    env = {k: v for k, v in single_assign_locals(fn).items() if k not in keep}
    if not env:
        return e
    return _Inliner(env).visit(copy.deepcopy(e))


MUTATORS = {"append", "extend", "insert", "pop", "remove", "clear", "update", "add", "discard", "setdefault", "sort", "reverse", "popitem", "__setitem__", "__delitem__"}


def inplace_mutations(fn: ast.AST, attr: str) -> list[ast.AST]:
    """Statements/calls in fn that modify the object held in self.<attr> in place (mutator call, item store/delete, augmented assignment)."""
    out: list[ast.AST] = []
    for n in walk_no_nested(fn):
        if isinstance(n, ast.Call) and isinstance(n.func, ast.Attribute) and n.func.attr in MUTATORS and self_attr(n.func.value) == attr:
            out.append(n)
        elif isinstance(n, (ast.Assign, ast.AugAssign, ast.Delete)):
            tg = n.targets if isinstance(n, (ast.Assign, ast.Delete)) else [n.target]
            for t in tg:
                if isinstance(t, ast.Subscript) and self_attr(t.value) == attr:
                    out.append(n)
                elif isinstance(n, ast.AugAssign) and self_attr(t) == attr:
                    out.append(n)
    return out
