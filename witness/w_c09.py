from wlib import *
import sys
progs = {
 "f1": "def 0 { forever { a(); if (debug) { break_loop; } b(); } end; }",
 "f2": "def 0 { forever { a(); if (debug) { c(); break_loop; } b(); } end; }",
 "f3": "def 0 { forever { a(); switch ($V) { case 1: break_loop; case 2: c(); break; } b(); } end; }",
 "f4": "def 0 { z(); forever { a(); if ($V == 1) { break_loop; } elseif (debug) { continue; } b(); } end; }",
 "w1": "def 0 { z(); while ($V < 3) { a(); if (debug) { break_loop; } b(); } end; }",
 "e1": "def 0 { if ($V == 1) { a(); } elseif (debug) { b(); } else { c(); } end; }",
 "m1": "def 0 { message_SwitchTalk ($V) { case 1: 'x' case 2: 'y' default: 'z' } end; }",
}
for k, src in progs.items():
    if len(sys.argv) > 1 and k not in sys.argv[1:]: continue
    print("=====", k)
    c = comp(src)
    show(c)
    txt, sm = decomp(c)
    lines = txt.split("\n")
    for i, l in enumerate(lines): print(f"{i:3} {l}")
    for off, m in sorted(sm._mappings.items()):
        print("   op", off, "->", m.line, m.column, repr(lines[m.line][m.column:m.column+25]) if m.line < len(lines) else None)
    if k in ("m1", "e1"):
        c2 = comp(txt)
        for off, m in sorted(c2.source_map._mappings.items()): print("   recompiled op", off, "->", m.line, m.column)
