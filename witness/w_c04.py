from wlib import *
from explorerscript.ssb_converting.ssb_data_types import *
p = SsbOpParamPositionMarker("it's\nme", 0, 2, 3, 4)
print(str(p))
c = comp("def 0 { x(%s); end; }" % str(p))
print(repr(c.routine_ops[0][0].params[0].name), c.routine_ops[0][0].params[0] == p)
print(str(SsbOpParamFixedPoint.from_float(1e-06)))
s = SsbOpParamConstString("a\\nb")
print(str(s)); c = comp("def 0 { x(%s); end; }" % str(s)); print(repr(c.routine_ops[0][0].params[0].name))
