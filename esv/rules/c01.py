"""C01 — compiled bytecode behaves exactly as the source program says."""

from __future__ import annotations

import ast
import time
from typing import Any

from ..engine import astq
from ..engine.absint import PyExc, Unsupported
from ..engine.cfg import build_cfg, stmt_of
from ..engine.loader import AnalysisError, Func, dotted, norm, walk_no_nested
from ..engine.report import Check, fkey
from ..engine.sta import WholeCompiler, compiled_graph, spec_graph, bisimilar, SpecError, show
from ..spec.skeletons import all_skeletons

SPECIAL = "explorerscript.ssb_converting.ssb_special_ops"
UTILS = "explorerscript.ssb_converting.compiler.utils"
CH = "explorerscript.ssb_converting.compiler.compile_handlers"


def _sta_worker(args: tuple[str, bool, int, int]) -> dict[str, Any]:
    """One share (index % n == k) of the skeleton family, analysed in its own process."""
    root, thorough, k, n = args
    from ..engine.loader import Repo
    from ..engine.consts import Folder
    from pathlib import Path
    repo = Repo(Path(root))
    fold = Folder(repo)
    branch = set(fold.const(f"{SPECIAL}:OPS_BRANCH")) | {"Case", "CaseMenu", "CaseMenu2", "CaseValue", "CaseVariable", "CaseScenario", "Call"}
    ends = set(fold.const(f"{SPECIAL}:OPS_THAT_END_CONTROL_FLOW")) - {fold.const(f"{SPECIAL}:OP_JUMP")}
    from ..engine.g4 import load_grammar
    ac = WholeCompiler(repo, fold, load_grammar(repo, "ExplorerScript"))
    counts: dict[str, int] = {}
    bad: dict[str, list[tuple[int, str, str]]] = {}
    unknown: dict[str, tuple[str, str]] = {}
    rejected_ok = 0
    total = 0
    samples: list[dict[str, Any]] = []
    from ..spec.skeletons import gen_random
    import itertools
    for idx, (family, prog) in enumerate(itertools.chain(all_skeletons(thorough), gen_random(thorough))):
        if idx % n != k:
            continue
        total += 1
        counts[family] = counts.get(family, 0) + 1
        text = " ".join(f"def {i} {{ {show(r)} }}" for i, r in enumerate(prog))
        try:
            try:
                sg, se = spec_graph(prog)
                spec_rejects = None
            except SpecError as e:
                spec_rejects = str(e)
            try:
                res = ac.compile(text)
                out = res["routine_ops"]
                comp_rejects = None
            except PyExc as e:
                comp_rejects = f"{e.cls_name}: {e.msg}"
                if e.cls_name not in ("SsbCompilerError", "ValueError"):
                    bad.setdefault(family, []).append((len(text), text, f"the compiler fails with {e.cls_name} ({e.msg}) at {e.where}"))
                    continue
            if spec_rejects is not None:
                if comp_rejects is None:
                    bad.setdefault(family, []).append((len(text), text, f"the compiler accepts a program the specification rejects ({spec_rejects})"))
                else:
                    rejected_ok += 1
                continue
            if comp_rejects is not None:
                bad.setdefault(family, []).append((len(text), text, f"the compiler rejects a valid program: {comp_rejects}"))
                continue
            cg, ce = compiled_graph(ac.I, out, branch, ends)
            if len(samples) < 2 and total % 37 == 1:
                samples.append({"program": text, "compiled": [[(o.attrs["offset"], o.attrs["op_code"].attrs["name"], [ac.I.str_(p) for p in o.attrs["params"]])
                                                               for o in rt] for rt in out]})
            for ri, (a, b) in enumerate(zip(ce, se)):
                ok, why = bisimilar(a, b)
                if not ok:
                    bad.setdefault(family, []).append((len(text), text, f"routine {ri}: {why}"))
                    break
        except Unsupported as e:
            unknown.setdefault(family, (text, str(e)))
        except AnalysisError as e:
            bad.setdefault(family, []).append((len(text), text, f"malformed result: {e}"))
    return {"counts": counts, "bad": bad, "unknown": unknown, "rejected_ok": rejected_ok, "total": total, "samples": samples, "steps": ac.I.steps}


def sta_rule(chk: Check, ctx: Any, rule: str, thorough: bool) -> None:
    import os
    from concurrent.futures import ProcessPoolExecutor
    repo = ctx.repo
    t0 = time.time()
    n = max(1, min(16, int(os.environ.get("ESV_WORKERS") or (os.cpu_count() or 2))))
    jobs = [(str(repo.root), thorough, k, n) for k in range(n)]
    try:
        with ProcessPoolExecutor(max_workers=n) as ex:
            parts = list(ex.map(_sta_worker, jobs))
    except (OSError, RuntimeError):
        parts = [_sta_worker((str(repo.root), thorough, 0, 1))]
    counts: dict[str, int] = {}
    bad: dict[str, list[tuple[int, str, str]]] = {}
    unknown: dict[str, tuple[str, str]] = {}
    rejected_ok = 0
    total = 0
    samples: list[dict[str, Any]] = []
    steps = 0
    for p in parts:
        for k2, v in p["counts"].items():
            counts[k2] = counts.get(k2, 0) + v
        for k2, v in p["bad"].items():
            bad.setdefault(k2, []).extend(tuple(x) for x in v)
        for k2, v in p["unknown"].items():
            unknown.setdefault(k2, tuple(v))
        rejected_ok += p["rejected_ok"]
        total += p["total"]
        samples.extend(p["samples"])
        steps = max(steps, p["steps"])
    samples = samples[:8]
    chk.extra["sta"] = {"skeletons": total, "per_family": counts, "rejected_by_both": rejected_ok, "seconds": round(time.time() - t0, 2),
                        "interpreted_steps_last": steps, "workers": n, "exhaustive_within_bounds": True,
                        "bounds": "<= 3 '||' headers, <= 2 elseifs, <= 3 cases + default at any position, loops nested <= 2, body shapes: "
                                  "empty / one op / two ops / lone jump / return / op+end / break / continue / break_loop / nested if"}
    chk.extra.setdefault("samples_sta", samples)
    chk.floor(rule, "program skeletons analysed", total, 1500 if not thorough else 5000)
    fam_all = sorted(counts)
    anchor = repo.func(f"{CH}.abstract:AbstractComplexBlockCompileHandler._process_block")
    for fam in fam_all:
        key = f"layout:{fam}"
        if fam in bad:
            lst = sorted(bad[fam])
            n = len(lst)
            _l, text, why = lst[0]
            chk.violation(rule, key, anchor,
                          f"{n} of {counts[fam]} '{fam}' skeletons compile to code that does not behave as specified; smallest: `{text}` -- {why}",
                          facts={"failing": [{"program": t, "difference": w} for _x, t, w in lst[:5]]})
        elif fam in unknown:
            text, why = unknown[fam]
            chk.unknown(rule, key, anchor, f"abstract interpretation left the modelled subset on `{text}`: {why}")
        else:
            chk.hold(rule, key, anchor, f"{counts[fam]} skeletons: compiled flow graph bisimilar to the specified one")


def strip_last_label_rules(chk: Check, ctx: Any, rule: str) -> None:
    repo = ctx.repo
    fold = ctx.fold
    f = repo.func(f"{UTILS}:strip_last_label")
    fn = f.node
    # the only statement that removes an op
    removes = [c for c in walk_no_nested(fn) if isinstance(c, ast.Call) and isinstance(c.func, ast.Attribute) and c.func.attr == "add"
               and "remove" in norm(c.func.value)]
    if len(removes) != 1:
        chk.unknown(rule, "strip_last_label:removal", f, "the statement that marks an op for removal was not found exactly once")
        return
    guard = None
    for n in walk_no_nested(fn):
        if isinstance(n, ast.If) and any(x is removes[0] for s in n.body for x in ast.walk(s)) and isinstance(n.test, ast.Name):
            guard = n.test.id
    if guard is None:
        chk.unknown(rule, "strip_last_label:guard", f, "the removal is not guarded by a flag variable")
        return
    # the flag is the result of does_op_end_control_flow on the previous op
    sets = [n for n in walk_no_nested(fn) if isinstance(n, ast.Assign) and any(isinstance(t, ast.Name) and t.id == guard for t in n.targets)]
    from_pred = [s for s in sets if isinstance(s.value, ast.Call) and dotted(s.value.func) == "does_op_end_control_flow"]
    chk.decide(rule, "strip_last_label:flag-source", bool(from_pred), f, f"`{guard}` is not computed by does_op_end_control_flow(previous op)",
               "flag = previous op ends control flow")
    # reset at labels that may be jump targets
    label_branch = None
    for n in walk_no_nested(fn):
        if isinstance(n, ast.If) and norm(n.test) == "isinstance(op, SsbLabel)":
            label_branch = n
    if label_branch is None:
        chk.violation(rule, "strip_last_label:reset-at-labels", f,
                      "labels between a flow-ending op and a jump to the removed end label are not looked at: a jump that is reachable through such a label is "
                      "deleted as dead code")
        return
    resets = [s for s in ast.walk(label_branch) if isinstance(s, ast.Assign) and any(isinstance(t, ast.Name) and t.id == guard for t in s.targets)
              and isinstance(s.value, ast.Constant) and s.value.value is False]
    if not resets:
        chk.violation(rule, "strip_last_label:reset-at-labels", f, f"`{guard}` is never reset when a label is passed: a jump that is reachable through the label is deleted",
                      node=label_branch)
        return
    cond = None
    for n in ast.walk(label_branch):
        if isinstance(n, ast.If) and n is not label_branch and any(x is resets[0] for x in ast.walk(n)):
            cond = n.test
    if cond is None:
        chk.hold(rule, "strip_last_label:reset-at-labels", f, "flag reset at every label", node=resets[0])
    else:
        t = norm(cond)
        # count > 0 / >= 1 / != 0 accepted; > 1 and the like are not implied by "at least one jump exists"
        ok: bool | None = None
        if isinstance(cond, ast.Compare) and len(cond.ops) == 1 and isinstance(cond.comparators[0], ast.Constant):
            k = cond.comparators[0].value
            op = cond.ops[0]
            ok = (isinstance(op, ast.Gt) and k == 0) or (isinstance(op, ast.GtE) and k == 1) or (isinstance(op, ast.NotEq) and k == 0)
            if isinstance(op, (ast.Gt, ast.GtE, ast.Eq)) and not ok:
                ok = False
        chk.decide(rule, "strip_last_label:reset-at-labels", ok, f,
                   f"`{guard}` is reset only if `{t}`: a label with exactly one jump to it is a jump target too, so the jump after it is reachable but gets "
                   "deleted and execution runs into the following ops", "reset whenever at least one jump targets the label", node=cond)
        # where do the counts come from: all routines, not only the current one
        cvar = None
        for n in ast.walk(cond):
            if isinstance(n, ast.Call) and isinstance(n.func, ast.Attribute) and n.func.attr == "get" and isinstance(n.func.value, ast.Name):
                cvar = n.func.value.id
            if isinstance(n, ast.Subscript) and isinstance(n.value, ast.Name):
                cvar = cvar or n.value.id
        if cvar is None:
            chk.unknown(rule, "strip_last_label:counts-global", f, "jump count table not recognised")
        else:
            p0 = astq.params_of(fn)[0]
            inits = [n for n in walk_no_nested(fn) if isinstance(n, (ast.Assign, ast.AnnAssign)) and norm(n.targets[0] if isinstance(n, ast.Assign) else n.target) == cvar]
            per_routine_loops = [n for n in walk_no_nested(fn) if isinstance(n, ast.For) and norm(n.iter) == p0]
            init_inside = any(any(x is i for x in ast.walk(lp)) for i in inits for lp in per_routine_loops if any(
                x is removes[0] for x in ast.walk(lp)))
            chk.decide(rule, "strip_last_label:counts-global", (not init_inside) if inits else None, f,
                       f"`{cvar}` is rebuilt for every routine, so it only counts jumps inside that routine: a label that is jumped to only from another routine "
                       "counts as never targeted and the jump behind it is deleted", "jumps counted over all routines", node=inits[0] if inits else fn)
    # replacement op: same offset, flow-ending dummy
    repl = [c for c in walk_no_nested(fn) if isinstance(c, ast.Call) and dotted(c.func) == "SsbOperation"]
    if len(repl) != 1:
        chk.unknown(rule, "strip_last_label:replacement", f, "replacement op not found")
    else:
        r = repl[0]
        name = fold.try_expr(f.mod, r.args[1].args[1]) if isinstance(r.args[1], ast.Call) and len(r.args[1].args) > 1 else None
        ends = fold.const(f"{SPECIAL}:OPS_THAT_END_CONTROL_FLOW")
        jump = fold.const(f"{SPECIAL}:OP_JUMP")
        ok = norm(r.args[0]) == "op.offset" and name in ends and name != jump and norm(r.args[2]) == "[]"
        chk.decide(rule, "strip_last_label:replacement", ok, f,
                   f"a jump to the stripped end label is replaced by `{norm(r)[:70]}`; it must keep the jump's offset and be a parameterless op that ends the routine",
                   f"replaced by {name} at the same offset", node=r)


def run(chk: Check, ctx: Any) -> None:
    repo = ctx.repo
    thorough = ctx.tier == "thorough"
    chk.explanation = (
        "C01 quantifies over all programs and all paths; three clauses are decided. (R2) Layout: for every program skeleton of a bounded family "
        "(every block construct with every body-shape class, nested pairs, label/jump/call patterns, several routines) the handlers' collect()/"
        "_process_block code, the compiler context and the three label post-passes are evaluated by abstract interpretation over symbolic labels and "
        "leaf ops (no repository code is executed by Python; leaves are atoms, so the result holds for every program with that skeleton), and the "
        "resulting jump/label structure must be bisimilar — plain jumps silent — to the flow graph the language specification assigns to the "
        "skeleton; programs the specification rejects must be rejected. (R3) Post-pass discipline of strip_last_label by def-use: the only op "
        "removal is guarded by 'previous op ends control flow', the guard is reset at every label that at least one jump (from any routine) "
        "targets, the replacement keeps the offset and ends the routine. (R4) every loop/case handler pops what it pushed on every normal exit. "
        "(R1) opcode and parameter order of the condition/assignment forms are decided by C02/C03 rules that share the emission-site table "
        "(parameter counts vs. the jump index table) and by the layout skeletons (Branch/Switch/Case parameters are part of the observable labels). "
        "Not decided: skeletons beyond the bounds, values, macro expansion (C05)."
        " (R1/R2, interpreter-based) The compiler's visitors, handlers and post-passes are evaluated from their syntax trees on the grammar's parse tree of 169"
        " syntactic forms and of an exhaustive bounded family of schematic programs; compiled flow graphs are compared with the specified ones by bisimulation,"
        " i.e. for every outcome of every test. These rules decide the enumerated shapes, not all programs."
    )
    chk.rule("C01-R2", "for every skeleton: abstractly compiled op lists (after strip_last_label, LabelFinalizer, OpsLabelJumpToRemover) are bisimilar to the specified flow graph; "
                       "specification-rejected skeletons are rejected by the compiler")
    chk.rule("C01-R3", "strip_last_label: removal only under the 'previous op ends control flow' flag; flag reset at labels targeted by >= 1 jump counted over all routines; "
                       "replacement op keeps the offset and ends control flow")
    chk.rule("C01-R4", "add_loop/add_switch_case are undone by remove_* on every normal exit of the collecting handler")
    chk.rule("C01-R1", "every condition, switch/case header, assignment, context and plain-operation form compiles (handlers evaluated abstractly on the grammar's parse tree) to "
                       "the opcode and parameter order the language specification assigns; meaningless forms are rejected; every parser rule has its handler")
    chk.rule("C01-R5", "programs with macros (nested, in any definition order, across files, control flow and labels inside, expanded several times) compile to "
                       "code that is bisimilar to the hand-inlined program (the projects of C05-R6)")
    forms_compiled_rule(chk, ctx, "C01-R1")
    sta_rule(chk, ctx, "C01-R2", thorough)
    from .macros import inline_rule
    inline_rule(chk, ctx, "C01-R5", rejects=False)
    strip_last_label_rules(chk, ctx, "C01-R3")
    # R4 (shared with C10-R4)
    n_pairs = 0
    for f in repo.all_funcs():
        if not f.mod.name.startswith(CH):
            continue
        for push, pop in (("add_loop", "remove_loop"), ("add_switch_case", "remove_switch_case")):
            pushes = [c for c in walk_no_nested(f.node) if isinstance(c, ast.Call) and isinstance(c.func, ast.Attribute) and c.func.attr == push
                      and "compiler_ctx" in norm(c.func.value)]
            if not pushes:
                continue
            n_pairs += 1
            cfg = build_cfg(f.node)
            pst = stmt_of(cfg, pushes[0])

            def is_pop(n: object, pop: str = pop) -> bool:
                if not isinstance(n, ast.stmt) or isinstance(n, (ast.If, ast.For, ast.While, ast.Try, ast.With)):
                    return False
                return any(isinstance(c, ast.Call) and isinstance(c.func, ast.Attribute) and c.func.attr == pop for c in ast.walk(n))
            leak = pst is not None and cfg.path_avoiding(pst, cfg.exit, is_pop)
            chk.decide("C01-R4", fkey(f, None, push), (not leak) if pst is not None else None, f,
                       f"{f.short} can return after {push}() without {pop}(): the finished block stays on the compiler's stack, so a later `continue`/`break_loop`/`break` "
                       "of an enclosing construct is bound to it and jumps to the wrong place", f"{pop} on every normal exit", node=pushes[0])
    chk.floor("C01-R4", "handlers that push a loop/case", n_pairs, 5)


# --------------------------------------------------------------------------- R1: compiled forms vs. the language's form table


def _expect_token(t: Any) -> str:
    """What a literal token denotes as a parameter, per the language specification."""
    ty, text = t.type, t.text
    if ty == "INTEGER":
        return str(int(text, 0))
    if ty in ("IDENTIFIER", "VARIABLE"):
        return f"const:{text}"
    if ty == "DECIMAL":
        neg = text.startswith("-")
        body = text[1:] if neg else text
        whole, _, fract = body.partition(".")
        whole = whole.lstrip("0") or "0"
        w = "-" + whole if neg else whole
        if neg and whole == "0":
            w = "-0"
        return f"fixed:{w}.{fract if fract != '' else '0'}"
    if ty == "MULTILINE_STRING_LITERAL":
        from ..spec.language_forms import multiline_value
        return "str:" + multiline_value(text)
    if ty == "STRING_LITERAL":
        return "str:" + text[1:-1].replace('\\"', '"').replace("\\'", "'").replace("\\n", "\n")
    return f"?{ty}:{text}"


def _expect_param(p: Any) -> str:
    from ..engine.g4 import Token
    if isinstance(p, Token):
        return _expect_token(p)
    if isinstance(p, tuple) and p and p[0] == "lang":
        return "lang:" + ",".join(f"{k}={_expect_token(v)[4:]}" for k, v in p[1])
    if isinstance(p, tuple) and p and p[0] == "pos":
        from ..spec.language_forms import position_arg
        x, y = position_arg(p[2].text), position_arg(p[3].text)
        return f"pos:{_expect_token(p[1])[4:]}:{x[0]}+{x[1]}:{y[0]}+{y[1]}"
    if isinstance(p, bool):
        return str(int(p))
    if isinstance(p, int):
        return str(p)
    return repr(p)


def forms_compiled_rule(chk: Check, ctx: Any, rule: str) -> None:
    from ..engine.dispatch import statement_visitor_table
    from ..engine.sta import TreeCompiler, WholeCompiler
    from ..engine.absint import AObj
    from ..spec import language_forms as LF
    repo = ctx.repo
    fold = ctx.fold
    g = ctx.grammar_exps
    PERF = "$PERF"
    disp = statement_visitor_table(repo, fold)
    chk.floor(rule, "statement visitor dispatch entries", len(disp), 45)
    # every parser rule the handlers need has a visit method (dispatch exhaustiveness)
    needs = ["cntrl_stmt", "jump", "call", "ctx_block", "if_block", "elseif_block", "else_block", "if_header", "if_h_negatable", "if_h_op", "if_h_bit", "if_h_scn",
             "switch_block", "message_switch_block", "single_case_block", "default", "switch_header", "switch_h_scn", "switch_h_random", "switch_h_dungeon_mode",
             "switch_h_sector", "case_header", "case_h_menu", "case_h_menu2", "case_h_op", "forever_block", "for_block", "while_block", "assignment_regular",
             "assignment_clear", "assignment_initial", "assignment_reset", "assignment_adv_log", "assignment_dungeon_mode", "assignment_scn", "value_of", "scn_var",
             "conditional_operator", "assign_operator", "integer_like", "operation", "arglist", "pos_argument", "position_marker", "position_marker_arg", "label",
             "string", "lang_string", "lang_string_argument", "macro_call"]
    missing = [r for r in needs if r not in disp or disp[r].handler is None]
    sv = repo.cls("explorerscript.ssb_converting.compiler.compiler_visitor.statement_visitor.StatementVisitor")
    chk.decide(rule, "dispatch:exhaustive", not missing, sv.mod, f"parser rules without a compile handler in StatementVisitor: {missing} (the construct compiles to nothing or fails)",
               f"{len(needs)} rules dispatched")
    branch_ops = set(fold.const(f"{SPECIAL}:OPS_BRANCH"))
    wc = WholeCompiler(repo, fold, g)
    pr = TreeCompiler(repo, fold, disp).param_repr
    anchor = sv.mod
    n_forms = 0
    samples: list[str] = []
    # the fragment is compiled inside a whole program: source text -> parse tree -> visitors -> handlers -> post-passes, all interpreted
    WRAP = {"if": ("def 0 {{ if ({}) {{ zz(); }} end; }}", 0, 1, True), "switch": ("def 0 {{ switch ({}) {{ case 1: zz(); }} end; }}", 0, 1, False),
            "case": ("def 0 {{ switch ($S) {{ case {}: zz(); }} end; }}", 1, 2, True), "stmt": ("def 0 {{ {} zzend(); }}", 0, None, False),
            "case-scn": ("def 0 {{ switch (scn($S)[0]) {{ case {}: zz(); }} end; }}", 1, 2, True)}

    def run_form(kind: str, start: str, text: str, spec_fn: Any, where: str) -> None:
        nonlocal n_forms
        n_forms += 1
        key = f"form:{kind}:{text}"
        try:
            tree = g.parse_text(start, text)
        except AnalysisError as e:
            tree = None
        if tree is None:
            chk.unknown(rule, key, anchor, f"sample `{text}` does not parse as {start} (grammar changed?)")
            return
        try:
            want = spec_fn(tree)
            want_n = [(op, [_expect_param(p) for p in ps]) for op, ps in want]
            want_rej = None
        except LF.Rejected as e:
            want, want_n, want_rej = None, None, str(e)
        tmpl, lo, hi, drop_target = WRAP[where]
        program = tmpl.format(text)
        try:
            res = wc.compile(program, PERF)
            ops = res["routine_ops"][0]
            got = []
            for op in ops[lo:hi]:
                name = op.attrs["op_code"].attrs["name"]
                if where == "stmt" and name == "zzend":
                    break
                ps = [pr(p) for p in op.attrs["params"]]
                got.append((name, ps[:-1] if drop_target else ps))
            got_rej = None
        except SpecError:
            chk.unknown(rule, key, anchor, f"`{program}` does not parse with the grammar")
            return
        except PyExc as e:
            got, got_rej = None, f"{e.cls_name}: {e.msg}"
            if e.cls_name not in ("SsbCompilerError", "ValueError") and want_rej is None:
                chk.violation(rule, key, anchor, f"`{program}`: the compiler fails with {e.cls_name} ({e.msg}) at {e.where}")
                return
        except Unsupported as e:
            chk.unknown(rule, key, anchor, f"`{program}`: abstract interpretation left the modelled subset: {e}")
            return
        if want_rej is not None:
            chk.decide(rule, key, got_rej is not None, anchor, f"`{program}` is meaningless ({want_rej}) but compiles to {got}", "rejected as specified")
            return
        if got_rej is not None:
            chk.violation(rule, key, anchor, f"`{program}` is valid but the compiler rejects it: {got_rej}")
            return
        if len(samples) < 10:
            samples.append(f"{program} -> {got}")
        chk.decide(rule, key, got == want_n, anchor,
                   f"`{text}` (in `{program}`) compiles to {got}; the language specification assigns {want_n} (opcode and parameters in this order)", f"{want_n}")

    blueprint = "if"
    ops_of = "stmt"

    ops_notation = list(LF.COND_NOTATION.values())
    for n in ops_notation:
        run_form("if", "if_header", f"$A {n} 0x15", lambda t: [LF.if_header(t, PERF, branch_ops)], blueprint)
        run_form("if", "if_header", f"$A {n} value($B)", lambda t: [LF.if_header(t, PERF, branch_ops)], blueprint)
        run_form("if-scn", "if_header", f"scn($A) {n} [3, 4]", lambda t: [LF.if_header(t, PERF, branch_ops)], blueprint)
        run_form("case", "case_header", f"{n} 7", lambda t: [LF.case_header(t, "Switch")], "case")
        run_form("case", "case_header", f"{n} value($B)", lambda t: [LF.case_header(t, "Switch")], "case")
    for w in ("debug", "edit", "variation"):
        run_form("if", "if_header", w, lambda t: [LF.if_header(t, PERF, branch_ops)], blueprint)
        run_form("if", "if_header", f"not {w}", lambda t: [LF.if_header(t, PERF, branch_ops)], blueprint)
    for src in ("$A[3]", "not $A[3]", f"{PERF}[3]", f"not {PERF}[3]", "BranchSum(1, 2, 3)", "BranchExecuteSub(CORO_X)", "foo(1)"):
        run_form("if", "if_header", src, lambda t: [LF.if_header(t, PERF, branch_ops)], blueprint)
    for src in ("$A", "5", "scn($A)[0]", "scn($A)[1]", "scn($A)[2]", "random(5)", "dungeon_mode(DUNGEON_X)", "sector()", "message_Menu(MENU_X)", "ProcessSpecial(1, 2, 3)"):
        run_form("switch", "switch_header", src, lambda t: [LF.switch_header(t)], "switch")
    for src in ("5", "CONST_X", "menu('Yes')", "menu2(3)"):
        run_form("case", "case_header", src, lambda t: [LF.case_header(t, "Switch")], "case")
    for n in LF.CALC_NOTATION.values():
        run_form("assign", "simple_stmt", f"$A {n} 5;", lambda t: LF.simple_stmt(t, PERF), ops_of)
        run_form("assign", "simple_stmt", f"$A {n} value($B);", lambda t: LF.simple_stmt(t, PERF), ops_of)
    for src in ("$A[3] = 1;", f"{PERF}[3] = 1;", "$A[3] = value($B);", "clear $A;", "init $A;", "reset dungeon_result;", "reset scn($A);", "adventure_log = 5;",
                "dungeon_mode(3) = DMODE_OPEN;", "$A = scn[3, 4];", "return;", "end;", "hold;",
                "foo(1, -0x10, 0b11, 1.50, -0.5, 007.250, CONST, $VAR, 'it\\'s', \"dq\", );", "foo<actor 7>(1);", "foo<object OBJ>();", "foo<performer 2>(3);", "bar();"):
        run_form("stmt", "simple_stmt", src, lambda t: LF.simple_stmt(t, PERF), ops_of)
    for src in ("foo({english='a', german=\"b\"});", "foo(Position<'m', 20, 20.5>);", "foo(Position<'m', 3.0, 0x10>);", "foo(Position<'m', 1.25, 2>);",
                "foo(\"\"\"\n      First Line\n      Second Line\n        Some indentation\n      Fourth Line\"\"\");",
                "foo(\'\'\'First Line\n      Second Line\n        Some indentation\n      Fourth Line\n          \'\'\');",
                "foo(\"\"\"one line\"\"\");", "foo(\"\"\"a\\nb\"\"\");",
                "foo({english=\"\"\"\n   String C\n   on lines\n  \"\"\"});"):
        run_form("stmt", "simple_stmt", src, lambda t: LF.simple_stmt(t, PERF), ops_of)
    for kind in ("actor", "object", "performer"):
        run_form("with", "stmt", f"with ({kind} 7) {{ foo(1); }}", lambda t, kind=kind: [(LF.CTX_OPS[kind], [t.sub("ctx_block").sub("ctx_header").sub("integer_like").first_token()])]
                 + LF.simple_stmt(t.sub("ctx_block").sub("simple_stmt"), PERF), ops_of)
    run_form("with", "stmt", "with (actor 7) { §lbl; }", lambda t: (_ for _ in ()).throw(LF.Rejected("label in with")), ops_of)
    for n in ops_notation:
        run_form("case-scn", "case_header", f"{n} 7", lambda t: [LF.case_header(t, "SwitchScenario")], "case-scn")
    run_form("case-scn", "case_header", "7", lambda t: [LF.case_header(t, "SwitchScenario")], "case-scn")
    # routine headers: id, kind, target, coroutine name
    RT = {"actor": "ACTOR", "object": "OBJECT", "performer": "PERFORMER"}
    hdrs: list[tuple[str, list[tuple[str, int, str | None, str | None]]]] = [
        ("def 0 { a(); } def 1 { b(); }", [("GENERIC", 0, None, None), ("GENERIC", 0, None, None)]),
        ("coro First { a(); } coro Second { b(); }", [("COROUTINE", 0, None, "First"), ("COROUTINE", 0, None, "Second")]),
        ("def 0 { a(); } def 1 { alias previous; }", [("GENERIC", 0, None, None), ("GENERIC", 0, None, None)]),
    ]
    for kw, en in RT.items():
        hdrs.append((f"def 0 for {kw} 5 {{ a(); }} def 1 for {kw} ID_X {{ b(); }} def 2 for_{kw}(0x10) {{ c(); }} def 3 for {kw} 1.5 {{ d(); }}",
                     [(en, 5, None, None), (en, -1, "ID_X", None), (en, 16, None, None), (en, -1, "1.5", None)]))
    for program, want_infos in hdrs:
        n_forms += 1
        key = f"routine-header:{program}"
        try:
            res = wc.compile(program, PERF)
            got_infos = []
            for info, name in zip(res["routine_infos"], res["named_coroutines"]):
                a = info.attrs
                got_infos.append((a["type"].name, a["linked_to"], a["linked_to_name"], name if isinstance(name, str) else None))
            n_ops = [len(r) for r in res["routine_ops"]]
            ok = got_infos == want_infos and all(n >= 1 for n in n_ops[:1])
            chk.decide(rule, key, ok, anchor, f"`{program}` yields routine infos {got_infos}; the routine headers say {want_infos} (kind, target id, target name, coroutine name)",
                       f"{want_infos}")
        except SpecError:
            chk.unknown(rule, key, anchor, f"`{program}` does not parse with the grammar")
        except PyExc as e:
            chk.violation(rule, key, anchor, f"`{program}` is valid but the compiler fails with {e.cls_name}: {e.msg}")
        except (Unsupported, KeyError, AttributeError) as e:
            chk.unknown(rule, key, anchor, f"`{program}`: abstract interpretation left the modelled subset: {e!r}")
    n_forms += rejection_forms(chk, ctx, rule, wc)
    chk.floor(rule, "syntactic forms compiled abstractly", n_forms, 100)
    chk.extra["forms_compiled"] = {"forms": n_forms, "samples": samples}


REJECTED_PROGRAMS = (
    ("def 1 { a(); } def 0 { b(); }", "routines out of id order"),
    ("def 0 { break; }", "break outside a switch case"),
    ("def 0 { if ($A == 1) { break; } }", "break outside a switch case"),
    ("def 0 { continue; }", "continue outside a loop"),
    ("def 0 { break_loop; }", "break_loop outside a loop"),
    ("def 0 { switch ($S) { case 1: continue; } }", "continue in a switch that is not in a loop"),
    ("def 0 { switch ($S) { case 1: break_loop; } }", "break_loop in a switch that is not in a loop"),
    ("def 0 { forever { a(); } break_loop; }", "break_loop after the loop has ended"),
    ("def 0 { while ($A == 1) { a(); } continue; }", "continue after the loop has ended"),
    ("def 0 { for ($A = 0; $A < 3; $A += 1;) { a(); } break_loop; }", "break_loop after the loop has ended"),
    ("def 0 { switch ($S) { case 1: a(); break; } break; }", "break after the switch has ended"),
    ("def 0 { jump @nowhere; }", "jump to a label that does not exist"),
    ("def 0 { call @nowhere; }", "call of a label that does not exist"),
    ("def 0 { a(); } def 1 { jump @gone; §here; b(); }", "jump to a label that does not exist"),
    ("def 0 { switch ($S) { case 1: } }", "switch ends in a case without block"),
    ("def 0 { switch ($S) { case 1: a(); break; case 2: } }", "switch ends in a case without block"),
    ("def 0 { switch ($S) { default: a(); break; case 2: } }", "switch ends in a case without block (after a default that has one)"),
    ("def 0 { switch ($S) { case 1: a(); break; default: b(); break; case 2: case 3: } }", "switch ends in cases without block"),
    ("def 0 { switch ($S) { default: a(); break; default: b(); } }", "two defaults"),
    ("def 0 { switch ($S) { default: default: b(); } }", "two defaults"),
    ("def 0 { message_SwitchTalk ($S) { case 1: a(); } }", "statements inside a message switch"),
    ("def 0 { message_SwitchMonologue ($S) { case 1: 'x' default: b(); } }", "statements inside a message switch"),
    ("def 0 { switch ($S) { case 1: 'text' } }", "a string instead of statements in an ordinary switch"),
    ("def 0 { with (actor 7) { §lbl; } }", "label inside a with-block"),
    ("def 0 { if (not $A[3]) { x(); } }", "`not` on a bit test of an ordinary variable"),
    ("def 0 { while (not $A[3]) { x(); } }", "`not` on a bit test of an ordinary variable"),
    ("def 0 { if (foo(1)) { x(); } }", "condition is not a branch operation"),
    ("def 0 { ~nothing(); }", "call of an unknown macro"),
)

DEGENERATE_PROGRAMS = (
    "def 0 { §a; }", "def 0 { §a; §b; }", "def 0 { §a; jump @a; }", "def 0 { jump @a; §a; }", "def 0 { alias previous; }", "def 0 { a(); } def 1 { alias previous; }",
    "def 0 { switch ($S) { } }", "def 0 { forever { } }", "def 0 { if ($A == 1) { } }", "def 0 { if ($A == 1) { } else { } }", "def 0 { while ($A == 1) { } }",
    "def 0 { switch ($S) { default: } }", "def 0 { with (actor 7) { return; } }", "coro A { §a; }", "def 0 for actor 1.5 { §a; }", "def 0 { §a; call @a; }",
    # literals with nothing in them, in every place a string can stand
    "def 0 { a('', \"\", '''''', \"\"\"\"\"\", {english='''''', german=\"\"}); }", "def 0 { message_SwitchTalk ($V) { case 1: '''''' default: \"\"\"\"\"\" } }",
    "def 0 { switch (message_Menu(1)) { case menu(''''''): x(); case menu(''): y(); } }", "def 0 { a(Position<'', 0, 0>); }",
    "macro m($s) { b($s); } def 0 { ~m(''''''); ~m({english=\"\"\"\"\"\"}); }", "def 0 { a('''\n''', \"\"\" \"\"\", '''\n\n'''); }",
)


def rejection_forms(chk: Check, ctx: Any, rule: str, wc: Any = None, degenerate: bool = False) -> int:
    """Statically meaningless programs are rejected with a documented error (and, with degenerate=True, degenerate but valid programs never
    fail with anything else): the whole compiler is interpreted on the program text."""
    from ..engine.sta import WholeCompiler
    repo = ctx.repo
    if wc is None:
        wc = WholeCompiler(repo, ctx.fold, ctx.grammar_exps)
    anchor = repo.func("explorerscript.ssb_converting.ssb_compiler:ExplorerScriptSsbCompiler.compile")
    n = 0
    for program, why in REJECTED_PROGRAMS:
        n += 1
        key = f"rejected:{program}"
        try:
            wc.compile(program, "$PERF")
            chk.violation(rule, key, anchor, f"`{program}` is meaningless ({why}) but compiles and yields output")
        except SpecError:
            chk.unknown(rule, key, anchor, f"`{program}` does not parse with the grammar")
        except PyExc as e:
            chk.decide(rule, key, e.cls_name in ("SsbCompilerError", "ValueError"), anchor,
                       f"`{program}` ({why}) fails with {e.cls_name} ({e.msg}) instead of ParseError, SsbCompilerError or ValueError", f"rejected: {e.cls_name}")
        except Unsupported as e:
            chk.unknown(rule, key, anchor, f"`{program}`: abstract interpretation left the modelled subset: {e}")
    if degenerate:
        for program in DEGENERATE_PROGRAMS:
            n += 1
            key = f"degenerate:{program}"
            try:
                wc.compile(program, "$PERF")
                chk.hold(rule, key, anchor, "compiles")
            except SpecError:
                chk.unknown(rule, key, anchor, f"`{program}` does not parse with the grammar")
            except PyExc as e:
                chk.decide(rule, key, e.cls_name in ("SsbCompilerError", "ValueError"), anchor,
                           f"`{program}` fails with {e.cls_name} ({e.msg}) at {e.where}: only ParseError, SsbCompilerError and ValueError may leave compile()",
                           f"rejected: {e.cls_name}")
            except Unsupported as e:
                chk.unknown(rule, key, anchor, f"`{program}`: abstract interpretation left the modelled subset: {e}")
    return n
