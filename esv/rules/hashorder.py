"""C11-R8: no result depends on the iteration order of a set of strings.

`str`, `bytes` and enum members (hashed by their name) get a different hash in every process (hash randomisation), so the order in
which a set of them is iterated differs between two runs of the same program.  The rule finds expressions that are, by their own
shape or by an annotation in the repository, sets of such values, and reports every place where their order becomes visible: a `for`
loop, a list/dict/generator comprehension, `list()`, `tuple()`, `enumerate()`, `iter()`, `str.join`, `*` unpacking, `.pop()`.
`sorted(...)`, set-to-set operations, membership tests, `len`, `any`, `all`, `sum`, `min`, `max` do not show the order.
"""

from __future__ import annotations

import ast
import re
from typing import Any

from ..engine.loader import Func, dotted, norm, walk_no_nested
from ..engine.report import Check

STR_ITERABLE = re.compile(r"\b(?:list|set|frozenset|tuple|deque|List|Set|FrozenSet|Tuple|Sequence|MutableSequence|Iterable|Collection|Iterator|AbstractSet|MutableSet)\[\s*(\w+)")
SET_OF = re.compile(r"^(?:typing\.)?(?:set|frozenset|Set|FrozenSet|AbstractSet|MutableSet)\[\s*([\w.]+)")
DICT_OF = re.compile(r"^(?:typing\.)?(?:dict|Dict|Mapping|MutableMapping|OrderedDict|defaultdict)\[\s*(\w+)")
ORDER_FREE_CALLS = {"sorted", "set", "frozenset", "len", "any", "all", "sum", "min", "max"}
ORDER_SINK_CALLS = {"list", "tuple", "enumerate", "iter", "zip", "map", "filter", "reversed", "next", "deque"}
STR_METHODS = {"split", "rsplit", "splitlines", "partition", "rpartition"}


class _Finder:
    def __init__(self, repo: Any, f_mod: Any, f_cls: Any, fn: ast.AST) -> None:
        self.repo = repo
        self.mod = f_mod
        self.cls = f_cls
        self.fn = fn
        self.ann: dict[str, str] = {}
        self.local_sets: dict[str, ast.AST] = {}
        args = getattr(fn, "args", None)
        if args is not None:
            for a in args.posonlyargs + args.args + args.kwonlyargs:
                if a.annotation is not None:
                    self.ann[a.arg] = self._ann_text(a.annotation)
        for n in walk_no_nested(fn):
            if isinstance(n, ast.AnnAssign):
                d = dotted(n.target)
                if d:
                    self.ann[d] = self._ann_text(n.annotation)
        if f_cls is not None:
            for k in repo.mro(f_cls):
                for st in k.node.body:
                    if isinstance(st, ast.AnnAssign) and isinstance(st.target, ast.Name):
                        self.ann.setdefault("self." + st.target.id, self._ann_text(st.annotation))
                for m in k.methods.values():
                    for n in walk_no_nested(m):
                        if isinstance(n, ast.AnnAssign):
                            d = dotted(n.target)
                            if d and d.startswith("self."):
                                self.ann.setdefault(d, self._ann_text(n.annotation))
        # single-assignment locals
        counts: dict[str, int] = {}
        vals: dict[str, ast.AST] = {}
        for n in walk_no_nested(fn):
            if isinstance(n, ast.Assign) and len(n.targets) == 1 and isinstance(n.targets[0], ast.Name):
                counts[n.targets[0].id] = counts.get(n.targets[0].id, 0) + 1
                vals[n.targets[0].id] = n.value
            elif isinstance(n, (ast.AugAssign, ast.For, ast.comprehension, ast.NamedExpr)):
                for t in ast.walk(n.target):
                    if isinstance(t, ast.Name):
                        counts[t.id] = counts.get(t.id, 0) + 2
        self.single = {k: v for k, v in vals.items() if counts.get(k) == 1}

    @staticmethod
    def _ann_text(a: ast.AST) -> str:
        if isinstance(a, ast.Constant) and isinstance(a.value, str):
            return a.value
        return norm(a)

    def _hash_random_type(self, tname: str) -> bool:
        base = tname.split(".")[-1]
        if base in ("str", "bytes"):
            return True
        r = self.repo.resolve(self.mod, tname)
        if r is not None and r[0] == "class":
            return any((dotted(b) or "").split(".")[-1] in ("Enum", "IntEnum", "Flag", "StrEnum") and (dotted(b) or "").split(".")[-1] != "IntEnum"
                       for b in r[1].base_exprs)  # type: ignore[union-attr]
        return False

    def elems_random(self, e: ast.AST, depth: int = 0) -> bool:
        """The iterable `e` yields values whose hash differs between processes."""
        if depth > 4:
            return False
        if isinstance(e, (ast.List, ast.Tuple, ast.Set)):
            return bool(e.elts) and all(self.is_random_value(x) for x in e.elts)
        if isinstance(e, (ast.ListComp, ast.SetComp, ast.GeneratorExp)):
            return self.is_random_value(e.elt)
        d = dotted(e)
        if d is not None:
            t = self.ann.get(d)
            if t:
                m = STR_ITERABLE.search(t)
                if m and self._hash_random_type(m.group(1)):
                    return True
                m2 = DICT_OF.match(t)
                if m2 and self._hash_random_type(m2.group(1)):
                    return True
            if isinstance(e, ast.Name) and e.id in self.single:
                return self.elems_random(self.single[e.id], depth + 1)
            return False
        if isinstance(e, ast.Call):
            if isinstance(e.func, ast.Attribute) and e.func.attr in STR_METHODS:
                return True
            if isinstance(e.func, ast.Attribute) and e.func.attr in ("keys", "copy", "union", "intersection", "difference", "symmetric_difference") :
                return self.elems_random(e.func.value, depth + 1)
            if dotted(e.func) in ("set", "frozenset", "list", "tuple", "sorted", "reversed") and e.args:
                return self.elems_random(e.args[0], depth + 1)
        if isinstance(e, ast.BinOp):
            return self.elems_random(e.left, depth + 1) or self.elems_random(e.right, depth + 1)
        return False

    def is_random_value(self, x: ast.AST) -> bool:
        if isinstance(x, ast.Constant):
            return isinstance(x.value, (str, bytes))
        if isinstance(x, ast.JoinedStr):
            return True
        if isinstance(x, ast.Call) and dotted(x.func) == "str":
            return True
        if isinstance(x, ast.Tuple):
            return any(self.is_random_value(y) for y in x.elts)
        d = dotted(x)
        if d is not None and self.ann.get(d) in ("str", "bytes"):
            return True
        return False

    def is_random_set(self, e: ast.AST, depth: int = 0) -> bool:
        """`e` is a set (by construction or annotation) whose iteration order differs between processes."""
        if depth > 4:
            return False
        if isinstance(e, ast.Set):
            return bool(e.elts) and any(self.is_random_value(x) for x in e.elts)
        if isinstance(e, ast.SetComp):
            return self.is_random_value(e.elt)
        if isinstance(e, ast.Call):
            fd = dotted(e.func)
            if fd in ("set", "frozenset"):
                return bool(e.args) and self.elems_random(e.args[0])
            if isinstance(e.func, ast.Attribute) and e.func.attr in ("copy", "union", "intersection", "difference", "symmetric_difference"):
                return self.is_random_set(e.func.value, depth + 1)
            return False
        if isinstance(e, ast.BinOp) and isinstance(e.op, (ast.BitOr, ast.BitAnd, ast.Sub, ast.BitXor)):
            return self.is_random_set(e.left, depth + 1) or self.is_random_set(e.right, depth + 1)
        d = dotted(e)
        if d is not None:
            t = self.ann.get(d)
            if t:
                m = SET_OF.match(t)
                if m and self._hash_random_type(m.group(1)):
                    return True
            if isinstance(e, ast.Name) and e.id in self.single:
                return self.is_random_set(self.single[e.id], depth + 1)
        return False


def _order_free_body(body: list[ast.stmt]) -> bool:
    """A loop body that only fills sets: its effect does not depend on the order of the iterations."""
    for st in body:
        if isinstance(st, ast.Expr) and isinstance(st.value, ast.Call) and isinstance(st.value.func, ast.Attribute) \
                and st.value.func.attr in ("add", "discard", "update") and isinstance(st.value.func.value, ast.Name):
            continue
        if isinstance(st, ast.If) and not st.orelse and _order_free_body(st.body):
            continue
        if isinstance(st, ast.Pass):
            continue
        return False
    return True


def sinks(repo: Any, mod: Any, cls: Any, fn: ast.AST) -> list[tuple[ast.AST, str]]:
    fd = _Finder(repo, mod, cls, fn)
    parents: dict[int, ast.AST] = {}
    for n in walk_no_nested(fn):
        for ch in ast.iter_child_nodes(n):
            parents[id(ch)] = n
    out: list[tuple[ast.AST, str]] = []
    for n in walk_no_nested(fn):
        if isinstance(n, ast.For) and fd.is_random_set(n.iter):
            if not _order_free_body(n.body):
                out.append((n, f"`for ... in {norm(n.iter)[:60]}`"))
        elif isinstance(n, (ast.ListComp, ast.DictComp, ast.GeneratorExp)):
            for g in n.generators:
                if fd.is_random_set(g.iter):
                    par = parents.get(id(n))
                    if isinstance(par, ast.Call) and dotted(par.func) in ORDER_FREE_CALLS:
                        continue
                    out.append((n, f"comprehension over `{norm(g.iter)[:60]}`"))
        elif isinstance(n, ast.Call):
            d = dotted(n.func)
            if d in ORDER_SINK_CALLS and n.args and any(fd.is_random_set(a) for a in n.args):
                par = parents.get(id(n))
                if isinstance(par, ast.Call) and dotted(par.func) in ORDER_FREE_CALLS:
                    continue
                out.append((n, f"`{norm(n)[:70]}`"))
            elif isinstance(n.func, ast.Attribute) and n.func.attr == "join" and n.args and fd.is_random_set(n.args[0]):
                out.append((n, f"`{norm(n)[:70]}`"))
            elif isinstance(n.func, ast.Attribute) and n.func.attr == "pop" and not n.args and fd.is_random_set(n.func.value):
                out.append((n, f"`{norm(n)[:70]}` (takes an arbitrary element)"))
        elif isinstance(n, ast.Starred) and fd.is_random_set(n.value):
            out.append((n, f"`*{norm(n.value)[:60]}`"))
    return out


SELF_TEST = '''
def resolve(imports: list[str], names: set[str]):
    out = []
    for i in set(imports):
        out.append(i)
    both = [n for n in names]
    ok = sorted(set(imports))
    seen = set()
    for i in set(imports):
        seen.add(i)
    return out, both, ok, ", ".join({"a", "b"}), len(set(imports))
'''


def hash_order_rule(chk: Check, ctx: Any, rule: str) -> None:
    repo = ctx.repo
    # the detector must find the three order-dependent sites of its own example (and only those) on every run
    t = ast.parse(SELF_TEST)
    anymod = next(iter(repo.modules.values()))
    found = sinks(repo, anymod, None, t.body[0])
    if len(found) != 3:
        from ..engine.loader import AnalysisError
        raise AnalysisError(f"{rule}: detector self-test found {len(found)} order-dependent sites in its example, expected 3")
    n_funcs = 0
    n_sets = 0
    for f in repo.all_funcs():
        if f.mod.name.startswith("explorerscript.antlr"):
            continue
        n_funcs += 1
        for n in walk_no_nested(f.node):
            if isinstance(n, (ast.Set, ast.SetComp)) or (isinstance(n, ast.Call) and dotted(n.func) in ("set", "frozenset")):
                n_sets += 1
        for node, what in sinks(repo, f.mod, f.cls, f.node):
            chk.violation(rule, f"{f.short}:{norm(node)[:60]}", f,
                          f"{what} iterates over a set of strings (or enum members): their hash, and with it the order of the iteration, differs between "
                          "processes, so the result is not a function of the input", node=node)
    chk.hold(rule, "scan", repo.func("explorerscript.ssb_converting.ssb_compiler:ExplorerScriptSsbCompiler.compile"),
             f"{n_funcs} functions, {n_sets} set constructions: no order-visible iteration over a set of strings", facts={"functions": n_funcs, "set_constructions": n_sets})
    chk.floor(rule, "functions scanned for hash-order dependence", n_funcs, 300)
    chk.extra["hash_order"] = {"functions": n_funcs, "set_constructions": n_sets, "detector_self_test_sites": len(found)}
