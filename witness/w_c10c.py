from wlib import *
for src in ["def 0 for actor 1.5 { x(); }", "def 0 for_actor(2.5) { x(); }", "def 0 for actor $V { x(); }", "def 0 { x(); }\ndef 0x1 for actor 0b1 { y(); }"]:
    for h in ("", "//?: is-ssb-script: true\n"):
        try:
            c = comp(h + src); print(repr(src), bool(h), "OK", c.routine_infos, [i.linked_to_name for i in c.routine_infos if i])
        except Exception as e:
            print(repr(src), bool(h), "->", type(e).__name__, e)
