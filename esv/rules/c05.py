"""C05 — a macro call means its body inlined, in any definition order and file layout."""

from __future__ import annotations

import ast
from typing import Any

from ..engine import astq
from ..engine.loader import AnalysisError, Func, dotted, norm, walk_no_nested
from ..engine.report import Check, fkey

MACRO = "explorerscript.macro"
CH = "explorerscript.ssb_converting.compiler.compile_handlers"
COMPILER = "explorerscript.ssb_converting.ssb_compiler"
MRO = "explorerscript.ssb_converting.compiler.compiler_visitor.macro_resolution_order"
MV = "explorerscript.ssb_converting.compiler.compiler_visitor.macro_visitor"


def run(chk: Check, ctx: Any) -> None:
    repo = ctx.repo
    chk.explanation = (
        "Decides the expansion template of ExplorerScriptMacro.build for all macros and call sites: labels of a blueprint are mapped through one "
        "per-expansion table to fresh labels, both where they are placed and where they are jumped to; `return` becomes a jump to the expansion's "
        "fresh end label, which is placed after the last op; every non-label element is rebuilt through _build_op with a parameter list that is "
        "new on every path and substitutes exactly the constants named like macro variables (R1). Arguments are bound to the variables in "
        "definition order, the macro is looked up by the call's name (R2). Imports starting with '.' or '/' resolve against the importing "
        "file's directory, others through the lookup paths in their given order, first hit wins, and sub-compilers inherit the lookup paths (R3). "
        "The macro compilation order is a topological order of the dependency graph with edges callee -> caller (R4). Behaviour of the "
        "expanded ops inherits C01's limits."
        " (R6, interpreter-based) compile() is evaluated on multi-file macro projects held in a virtual file system and compared with hand-inlined programs by "
        "bisimulation; meaningless projects must be rejected."
    )
    chk.rule("C05-R6", "compile() interpreted on multi-file projects (virtual files): a program with macro calls behaves like the same program with the bodies inlined by hand (bisimilar flow graphs, all test outcomes): nesting across files, return, control flow and labels in macros, repeated calls, argument permutation and kinds, import resolution (relative to the importing file, lookup order, diamonds), definition order; recursive/unknown macros, missing arguments, missing/cyclic imports, routines in imports are rejected with a documented error")
    chk.rule("C05-R1", "build(): one fresh label per blueprint label id and expansion (placement and jump targets use the same table); Return -> Jump to the fresh "
                       "end label placed after the loop; params list is new on every path and substitutes by variable name")
    chk.rule("C05-R2", "call binding dict(zip(macro.variables, args)); variables in header order; macro looked up by the call's name without '~'")
    chk.rule("C05-R3", "imports: './' and '/' against the importing file's directory; otherwise lookup paths in list order, first existing wins; inherited by sub-compilers")
    chk.rule("C05-R5", "cyclic imports: the file about to be imported is tested against the chain of files currently being imported; the chain handed to a "
                       "sub-compiler is a fresh list (own chain + importing file) and is never modified in place")
    chk.rule("C05-R4", "macro order = topological order of the dependency graph (edges callee -> caller), not a traversal order")

    build = repo.func(f"{MACRO}:ExplorerScriptMacro.build")
    fn = build.node
    loop = next((n for n in fn.body if isinstance(n, ast.For) and norm(n.iter) == "self.blueprints"), None)
    if loop is None or not isinstance(loop.target, ast.Name):
        raise AnalysisError("build(): loop over self.blueprints not found")
    bv = loop.target.id
    # label table: a local dict created in build
    tables = [n for n in fn.body if isinstance(n, (ast.Assign, ast.AnnAssign)) and isinstance(n.value, ast.Dict) and not n.value.keys]
    tname = None
    for n in tables:
        t = n.targets[0] if isinstance(n, ast.Assign) else n.target
        if isinstance(t, ast.Name) and any(isinstance(x, ast.Subscript) and norm(x.value) == t.id for x in ast.walk(loop)):
            tname = t.id
    chk.decide("C05-R1", "build:label-table-local", tname is not None, build,
               "the table that maps blueprint labels to the labels of this expansion is not a fresh local of build(): expansions would share labels",
               f"fresh local table {tname}")
    if tname is None:
        return
    out_name = None
    for n in fn.body:
        if isinstance(n, (ast.Assign, ast.AnnAssign)) and isinstance(n.value, ast.List):
            t = n.targets[0] if isinstance(n, ast.Assign) else n.target
            if isinstance(t, ast.Name) and any(isinstance(c, ast.Call) and norm(c.func) == f"{t.id}.append" for c in ast.walk(loop)):
                out_name = t.id
    if out_name is None:
        raise AnalysisError("build(): output list not found")
    appends = [c for c in ast.walk(loop) if isinstance(c, ast.Call) and norm(c.func) == f"{out_name}.append"]
    # classify branch of each append by the isinstance chain
    from .c03 import _isinstance_guards
    n_lab = n_jmp = 0
    for a in appends:
        pos, neg = _isinstance_guards(fn, a, bv)
        val = astq.inline_locals(fn, a.args[0], keep=(tname,))
        key = fkey(build, a)
        if "SsbLabel" in pos:
            n_lab += 1
            ok = isinstance(val, ast.Subscript) and norm(val.value) == tname and norm(val.slice) == f"{bv}.id"
            chk.decide("C05-R1", key, ok, build,
                       f"a label of the blueprint is placed as `{norm(val)[:70]}` instead of {tname}[{bv}.id]: jumps inside the expansion (which go through "
                       f"{tname}) then target a label object that is never placed (or one shared with other expansions)",
                       "placed label taken from the per-expansion table", node=a)
        elif "SsbLabelJump" in pos:
            n_jmp += 1
            lj = [c for c in ast.walk(val) if isinstance(c, ast.Call) and dotted(c.func) == "SsbLabelJump"] if val is not None else []
            ok = None
            if lj and len(lj[0].args) == 2:
                tgt = lj[0].args[1]
                ok = isinstance(tgt, ast.Subscript) and norm(tgt.value) == tname and norm(tgt.slice) == f"{bv}.label.id"
                root = lj[0].args[0]
                rooted = isinstance(root, ast.Call) and isinstance(root.func, ast.Attribute) and root.func.attr == "_build_op"
                chk.decide("C05-R1", key + ":root", rooted, build, "the jump's op is not rebuilt through _build_op (no fresh number / parameter substitution)",
                           "jump op rebuilt through _build_op", node=a)
            chk.decide("C05-R1", key, ok, build,
                       f"a jump of the blueprint targets {norm(lj[0].args[1]) if lj else '?'} instead of {tname}[{bv}.label.id]: it leaves the expansion's own labels",
                       "jump target taken from the per-expansion table", node=a)
    chk.floor("C05-R1", "label placements in build()", n_lab, 1)
    chk.floor("C05-R1", "jump rebuilds in build()", n_jmp, 1)
    # table is filled exactly under `id not in table` with _copy_blueprint_label
    fills = [n for n in ast.walk(loop) if isinstance(n, ast.Assign) and isinstance(n.targets[0], ast.Subscript) and norm(n.targets[0].value) == tname]
    for st in fills:
        guard_ok = False
        for i in ast.walk(loop):
            if isinstance(i, ast.If) and any(x is st for b in i.body for x in ast.walk(b)) and isinstance(i.test, ast.Compare) \
                    and isinstance(i.test.ops[0], ast.NotIn) and tname in norm(i.test.comparators[0]) and norm(i.test.left) == norm(st.targets[0].slice):  # type: ignore[union-attr]
                guard_ok = True
        fresh = isinstance(st.value, ast.Call) and isinstance(st.value.func, ast.Attribute) and st.value.func.attr == "_copy_blueprint_label"
        chk.decide("C05-R1", fkey(build, st), guard_ok and fresh, build,
                   "a new label is created for a blueprint label without the `id not in table` guard (two labels for one blueprint label) or not through _copy_blueprint_label",
                   "one fresh copy per blueprint label id", node=st)
    chk.floor("C05-R1", "label table fills", len(fills), 2)
    # every label object appended in the loop must come from the table (no direct _copy_blueprint_label/constructor results)
    for a in appends:
        val = a.args[0]
        if isinstance(val, ast.Call) and (dotted(val.func) or "").split(".")[-1] in ("_copy_blueprint_label", "SsbLabel", "MacroStartSsbLabel", "MacroEndSsbLabel"):
            chk.violation("C05-R1", fkey(build, a, "bypass"), build,
                          f"`{norm(a)[:80]}` places a fresh label that is not recorded in {tname}: jumps to the blueprint label (e.g. the `return` of a "
                          "nested macro, which targets its end label) are bound to a different label that is never placed", node=a)
    # copy function creates labels from the label counter
    cp = repo.func(f"{MACRO}:ExplorerScriptMacro._copy_blueprint_label")
    ctor = [c for c in walk_no_nested(cp.node) if isinstance(c, ast.Call) and (dotted(c.func) or "") in ("SsbLabel", "MacroStartSsbLabel", "MacroEndSsbLabel")]
    ok = len(ctor) >= 3 and all(c.args and norm(c.args[0]) == f"{astq.params_of(cp.node)[0]}()" for c in ctor)
    chk.decide("C05-R1", "_copy_blueprint_label:fresh-id", ok, cp, "copied labels do not take a fresh id from the label counter", "fresh id per copy")
    # return -> jump to end label
    end_defs = [n for n in fn.body if isinstance(n, ast.Assign) and isinstance(n.value, ast.Call) and dotted(n.value.func) == "MacroEndSsbLabel"]
    if len(end_defs) != 1:
        chk.unknown("C05-R1", "build:end-label", build, "fresh end label not found")
    else:
        ev = norm(end_defs[0].targets[0])
        fresh = end_defs[0].value.args and norm(end_defs[0].value.args[0]) == f"{astq.params_of(fn)[1]}()"  # type: ignore[union-attr]
        chk.decide("C05-R1", "build:end-label-fresh", bool(fresh), build, "the end label of the expansion does not take a fresh id from the label counter", "fresh end label")
        ret_branch = [i for i in ast.walk(loop) if isinstance(i, ast.If) and "OP_RETURN" in norm(i.test)]
        if len(ret_branch) != 1:
            chk.violation("C05-R1", "build:return->jump", build, "`return` inside a macro is not treated: it would end the calling routine instead of leaving only the macro")
        else:
            rb = ret_branch[0]
            t = rb.test
            is_eq = isinstance(t, ast.Compare) and isinstance(t.ops[0], ast.Eq) and norm(t.left) == f"{bv}.op_code.name"
            body_txt = " ".join(norm(s) for s in rb.body)
            jump_op = "OP_JUMP" in body_txt and "SsbLabelJump(" in body_txt and f", {ev})" in body_txt.replace(" ", " ")
            chk.decide("C05-R1", "build:return->jump", bool(is_eq and jump_op), build,
                       f"the Return branch (`{norm(t)}`) does not emit SsbLabelJump(<op with opcode Jump>, {ev})", "Return -> Jump to the end label", node=rb)
            repl = [c for s in rb.body for c in ast.walk(s) if isinstance(c, ast.Call) and dotted(c.func) == "SsbOperation"]
            if repl:
                chk.decide("C05-R1", "build:return-keeps-offset", norm(repl[0].args[0]) == f"{bv}.offset" and norm(repl[0].args[2]) == "[]", build,
                           "the replacement op of a return does not keep the blueprint op's number (its source map entry is looked up by it) or carries parameters",
                           "replacement keeps the blueprint number, no parameters", node=repl[0])
        after = [s for s in fn.body if s.lineno > loop.end_lineno and any(isinstance(c, ast.Call) and norm(c.func) == f"{out_name}.append"  # type: ignore[operator]
                                                                        and norm(c.args[0]) == ev for c in ast.walk(s))]
        chk.decide("C05-R1", "build:end-label-placed", len(after) == 1 and not isinstance(after[0], (ast.If, ast.For, ast.While)), build,
                   f"{ev} is not appended unconditionally after the blueprint loop: jumps produced for `return` have no target", "end label placed after the last op")
        rv = astq.single_return_expr(fn)
        chk.decide("C05-R1", "build:returns-out", rv is not None and norm(rv) == out_name, build, "build() does not return the list it assembled", "returns the assembled list")
    # _process_parameters
    pp = repo.func(f"{MACRO}:ExplorerScriptMacro._process_parameters")
    pfn = pp.node
    ps = astq.params_of(pfn)
    fresh_lists = {n.targets[0].id for n in walk_no_nested(pfn) if isinstance(n, ast.Assign) and isinstance(n.targets[0], ast.Name) and (
        isinstance(n.value, (ast.List, ast.ListComp)) or (isinstance(n.value, ast.Call) and dotted(n.value.func) in ("list",)))}
    fresh_lists |= {n.target.id for n in walk_no_nested(pfn) if isinstance(n, ast.AnnAssign) and isinstance(n.target, ast.Name) and isinstance(n.value, (ast.List, ast.ListComp))}
    for r in astq.returns_of(pfn):
        v = r.value
        ok = v is not None and ((isinstance(v, ast.Name) and v.id in fresh_lists) or isinstance(v, (ast.List, ast.ListComp)) or (
            isinstance(v, ast.Call) and (dotted(v.func) == "list" or norm(v).endswith(".copy()"))))
        chk.decide("C05-R1", fkey(pp, r), ok, pp,
                   f"`{norm(r)}` hands out the blueprint op's own parameter list: every expansion's op shares it, and the label remover appends each expansion's jump "
                   "target to that one list", "returns a new list", node=r)
    sub = [i for i in walk_no_nested(pfn) if isinstance(i, ast.If) and isinstance(i.test, ast.Call) and dotted(i.test.func) == "isinstance"
           and "SsbOpParamConstant" in norm(i.test)]
    ok_sub = False
    if sub:
        txt = " ".join(norm(s) for s in sub[0].body)
        ok_sub = f" in {ps[1]}" in txt and f"{ps[1]}[" in txt
    whole = norm(pfn)
    if ok_sub or (f" in {ps[1]}" in whole and f"{ps[1]}[" in whole and "SsbOpParamConstant" in whole and ".replace(" not in whole):
        chk.hold("C05-R1", "_process_parameters:substitution", pp, "constants named like variables are looked up once in the parameter table")
    elif f"{ps[1]}.items()" in whole or f"for" in whole and f"in {ps[1]}:" in whole:
        chk.violation("C05-R1", "_process_parameters:substitution", pp,
                      "parameters are substituted one macro variable after another: an argument spelled like a later variable of the callee is substituted a second time")
    else:
        chk.hold("C05-R1", "_process_parameters:substitution", pp, "shape not recognised here; the substitution is decided on sample projects by C05-R6")
    bo = repo.func(f"{MACRO}:ExplorerScriptMacro._build_op")
    ops = [c for c in walk_no_nested(bo.node) if isinstance(c, ast.Call) and dotted(c.func) == "SsbOperation"]
    ok = len(ops) == 1 and norm(ops[0].args[1]).endswith(".op_code") and "_process_parameters(" in norm(ops[0].args[2])
    chk.decide("C05-R1", "_build_op:op", ok, bo, "the rebuilt op does not keep the blueprint opcode with parameters from _process_parameters", "same opcode, processed parameters")

    # ------------------------------------------------------------------ R2
    mc = repo.func(f"{CH}.operations.macro_call:MacroCallCompileHandler.collect")
    b = [c for c in walk_no_nested(mc.node) if isinstance(c, ast.Call) and isinstance(c.func, ast.Attribute) and c.func.attr == "build"]
    if len(b) != 1 or len(b[0].args) < 3:
        chk.unknown("C05-R2", "macro_call:binding", mc, "macro.build(...) call not found")
    else:
        arg = astq.inline_locals(mc.node, b[0].args[2], keep=("macro", "args"))
        ok = isinstance(arg, ast.Call) and dotted(arg.func) == "dict" and arg.args and isinstance(arg.args[0], ast.Call) and dotted(arg.args[0].func) == "zip" \
            and len(arg.args[0].args) == 2 and norm(arg.args[0].args[0]).endswith(".variables") and norm(arg.args[0].args[1]) == "args"
        chk.decide("C05-R2", "macro_call:binding", ok, mc, f"arguments are bound with `{norm(arg)[:80]}`, not dict(zip(macro.variables, args))", "variables x arguments in order", node=b[0])
        lk = [n for n in walk_no_nested(mc.node) if isinstance(n, ast.Assign) and norm(n.targets[0]) == "name"]
        ok = bool(lk) and norm(lk[0].value) == "str(self.ctx.MACRO_CALL())[1:]"
        chk.decide("C05-R2", "macro_call:name", ok, mc, f"macro name is `{norm(lk[0].value) if lk else '?'}`, not the MACRO_CALL token without its leading '~'", "name = token[1:]")
        sel = [n for n in walk_no_nested(mc.node) if isinstance(n, ast.Assign) and norm(n.targets[0]) == "macro"]
        chk.decide("C05-R2", "macro_call:lookup", bool(sel) and norm(sel[0].value) == "self.compiler_ctx.macros[name]", mc, "the macro is not looked up by that name", "macros[name]")
        counters = [norm(a) for a in b[0].args[:2]]
        chk.decide("C05-R2", "macro_call:counters", counters == ["self.compiler_ctx.counter_ops", "self.compiler_ctx.counter_labels"], mc,
                   f"build() receives counters {counters}; expected the routine's op and label counters (unique offsets, private labels)", "shared op/label counters")
    gv = repo.func(f"{CH}.functions.macro_def:MacroDefCompileHandler.get_variables")
    loops = [n for n in walk_no_nested(gv.node) if isinstance(n, (ast.For, ast.ListComp))]
    it = norm(loops[0].iter if isinstance(loops[0], ast.For) else loops[0].generators[0].iter) if loops else ""
    chk.decide("C05-R2", "macro_def:variables-in-order", it == "self.ctx.VARIABLE()", gv, f"macro variables are collected from `{it}`, not in header order from ctx.VARIABLE()", "header order")
    args_f = repo.func(f"{CH}.operations.arg_list:ArgListCompileHandler.collect")
    it2 = [n for n in walk_no_nested(args_f.node) if isinstance(n, ast.For)]
    ok = bool(it2) and "self._added_handlers" in norm(it2[0].iter) and "reversed" not in norm(it2[0].iter) and "sorted" not in norm(it2[0].iter)
    chk.decide("C05-R2", "arg_list:order", ok, args_f, "arguments are not collected in source order", "arguments in source order")

    # ------------------------------------------------------------------ R3
    rf = repo.func(f"{COMPILER}:ExplorerScriptSsbCompiler._resolve_imported_file")
    rfn = rf.node
    outer = next((n for n in rfn.body if isinstance(n, ast.For)), None)
    if outer is None:
        raise AnalysisError("_resolve_imported_file: loop over imports not found")
    chk.decide("C05-R3", "imports:order", norm(outer.iter) == "self.imports", rf, f"imports are resolved from `{norm(outer.iter)}`", "imports in source order")
    branch = next((n for n in outer.body if isinstance(n, ast.If)), None)
    if branch is None:
        chk.unknown("C05-R3", "imports:relative-test", rf, "relative/lookup branch not found")
    else:
        t = norm(branch.test)
        ok = "startswith('.')" in t and "startswith('/')" in t and " or " in t
        chk.decide("C05-R3", "imports:relative-test", ok, rf, f"relative/absolute imports are recognised by `{t}`; documented: the import starts with '.' or '/'", "starts with '.' or '/'")
        rel_join = " ".join(norm(s) for s in branch.body)
        chk.decide("C05-R3", "imports:relative-base", "dir_name" in rel_join and "import_file" in rel_join and "joinpath" in rel_join, rf,
                   "a relative import is not joined onto the importing file's directory", "joined onto the importing file's directory")
        loops = [n for s in branch.orelse for n in ast.walk(s) if isinstance(n, ast.For)]
        if len(loops) != 1:
            chk.unknown("C05-R3", "imports:lookup-order", rf, "lookup path loop not found")
        else:
            lp = loops[0]
            it = norm(lp.iter)
            if it == "self.lookup_paths":
                chk.hold("C05-R3", "imports:lookup-order", rf, "lookup paths tried in their given order", node=lp)
            elif any(w in it for w in ("sorted(", "set(", "reversed(", "[::-1]")):
                chk.violation("C05-R3", "imports:lookup-order", rf,
                              f"lookup paths are tried in the order of `{it}`, not in the order they were given: with the file present in two lookup "
                              "directories the wrong one is imported", node=lp)
            else:
                chk.unknown("C05-R3", "imports:lookup-order", rf, f"lookup loop iterates {it}", node=lp)
            brk = any(isinstance(n, ast.Break) for n in ast.walk(lp))
            chk.decide("C05-R3", "imports:first-hit-wins", brk, rf, "the lookup loop does not stop at the first existing candidate: the last match wins", "break at first hit", node=lp)
    comp = repo.func(f"{COMPILER}:ExplorerScriptSsbCompiler.compile")
    ctor = [c for c in walk_no_nested(comp.node) if isinstance(c, ast.Call) and norm(c.func) == "self.__class__"]
    ok = bool(ctor) and len(ctor[0].args) >= 2 and norm(ctor[0].args[1]) == "self.lookup_paths" and norm(ctor[0].args[0]) == "self.performance_progress_list_var_name"
    chk.decide("C05-R3", "imports:subcompiler-config", ok, comp, "sub-compilers do not inherit the performance variable name and the lookup paths", "configuration inherited")
    dn = [c for c in walk_no_nested(comp.node) if isinstance(c, ast.Call) and dotted(c.func) == "self._resolve_imported_file"]
    ok = bool(dn) and norm(dn[0].args[0]) == "os.path.dirname(file_name)"
    chk.decide("C05-R3", "imports:base-dir", ok, comp, "imports are not resolved against the directory of the file being compiled", "dirname(file_name)")
    upd = [c for c in walk_no_nested(comp.node) if isinstance(c, ast.Call) and norm(c.func) == "self.macros.update"]
    chk.decide("C05-R3", "imports:macros-merged", len(upd) == 2, comp, "macros of imported files and own macros are not both merged into self.macros", "imported and own macros merged")

    # ------------------------------------------------------------------ R5: the recursion check list is the chain of files being imported
    from ..engine import astq as _astq
    rc_kw = [k for c in ctor for k in c.keywords if k.arg == "recursion_check"] if ctor else []
    if not rc_kw:
        chk.unknown("C05-R5", "imports:recursion-chain", comp, "the sub-compiler is not given a recursion_check list")
    else:
        t = norm(rc_kw[0].value)
        ok = t in ("self.recursion_check + [file_name]", "[*self.recursion_check, file_name]", "[file_name] + self.recursion_check")
        chk.decide("C05-R5", "imports:recursion-chain", True if ok else None, comp,
                   f"the sub-compiler's recursion_check is `{t}`", "own chain + the importing file (a fresh list)", node=rc_kw[0].value)
    ccls = comp.cls
    muts = [(mn, x) for mn, m in ccls.methods.items() if mn != "__init__" for x in _astq.inplace_mutations(m, "recursion_check")]  # type: ignore[union-attr]
    chk.decide("C05-R5", "imports:recursion-chain-not-mutated", not muts, comp,
               "self.recursion_check is modified in place" + (f" (`{norm(muts[0][1])[:60]}` in {muts[0][0]}())" if muts else "") +
               ": the list then also names files imported earlier by this file, and an acyclic layout (main imports base and util, util imports base) is "
               "rejected as infinite recursion", "the chain list is never modified in place", node=muts[0][1] if muts else None)
    tests = [n for n in walk_no_nested(comp.node) if isinstance(n, ast.Compare) and norm(n).endswith("in self.recursion_check")]
    chk.decide("C05-R5", "imports:recursion-test", bool(tests) and norm(tests[0].left) in ("subfile_path",), comp,
               "the file about to be imported is not tested against the chain of importing files", "subfile_path in self.recursion_check")

    # ------------------------------------------------------------------ R4
    vs = repo.func(f"{MRO}:MacroResolutionOrderVisitor.visitStart")
    rets = [r.value for r in astq.returns_of(vs.node) if r.value is not None]
    txt = " ".join(norm(astq.inline_locals(vs.node, r)) for r in rets)
    body_txt = ast.unparse(vs.node)
    vmc = repo.func(f"{MRO}:MacroResolutionOrderVisitor.visitMacro_call")
    edges = [c for c in walk_no_nested(vmc.node) if isinstance(c, ast.Call) and isinstance(c.func, ast.Attribute) and c.func.attr == "add_edge"]
    direction = None
    if len(edges) == 1 and len(edges[0].args) >= 2:
        a0, a1 = norm(edges[0].args[0]), norm(edges[0].args[1])
        if a1 == "self._active_macro_name" and a0 != a1:
            direction = "callee->caller"
        elif a0 == "self._active_macro_name":
            direction = "caller->callee"
    if "bfsiter" in body_txt or "dfsiter" in body_txt or ".bfs(" in body_txt:
        chk.violation("C05-R4", "macro-order", vs,
                      "the resolution order is the visiting order of a graph traversal: a macro that is reachable at two depths (top -> shallow, top -> deep1 -> "
                      "deep2 -> shallow) is listed before a macro it depends on, and an acyclic set of macros fails with 'Macro ... not found'")
    elif "topological_sorting" in txt:
        mode_in = "mode='in'" in txt or 'mode="in"' in txt or "mode=IN" in txt
        rev = "reversed(" in txt or "[::-1]" in txt
        callees_first = (direction == "callee->caller") != (mode_in != rev)
        chk.decide("C05-R4", "macro-order", callees_first if direction else None, vs,
                   f"edges run {direction} but the order is `{txt[:90]}`: callers are compiled before the macros they call", f"topological order, edges {direction}")
    else:
        chk.unknown("C05-R4", "macro-order", vs, f"order expression `{txt[:90]}` not recognised")
    chk.decide("C05-R4", "macro-order:edge-direction", direction is not None, vmc, "dependency edge (called macro -> calling macro) not recognised", f"edges {direction}")
    mv = repo.func(f"{MV}:MacroVisitor.visitStart")
    srt = [c for c in walk_no_nested(mv.node) if isinstance(c, ast.Call) and dotted(c.func) == "sorted"]
    ok = bool(srt) and any(k.arg == "key" and "macro_resolution_order.index" in norm(k.value) for k in srt[0].keywords) and not any(
        k.arg == "reverse" and not (isinstance(k.value, ast.Constant) and k.value.value is False) for k in srt[0].keywords)
    chk.decide("C05-R4", "macro-visitor:uses-order", ok, mv, "macros are not compiled in the resolution order", "compiled in resolution order")
    reg = [n for n in walk_no_nested(mv.node) if isinstance(n, ast.Assign) and isinstance(n.targets[0], ast.Subscript) and norm(n.targets[0].value) == "self.compiler_ctx.macros"]
    chk.decide("C05-R4", "macro-visitor:registers-each", len(reg) == 1, mv, "a compiled macro is not made available to the macros compiled after it", "each macro registered for later ones")
    from .macros import inline_rule
    inline_rule(chk, ctx, "C05-R6")

