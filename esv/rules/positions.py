"""Source positions of directly written ops (shared by C08 and C09): the whole compiler is interpreted on laid-out programs and every
emitted op's source-map entry is compared with the position the grammar's own parse tree gives for the construct the op belongs to."""

from __future__ import annotations

import re
from typing import Any

from ..engine.absint import AObj, PyExc, Unsupported
from ..engine.report import Check
from ..engine.sta import SpecError, WholeCompiler

# canonical layout; every op name, header variable, switch variable, case value and context id is unique inside a program
PROGRAMS = {
    "if-chain": """def 0 {
    pa(); pb();
    if not ($V1 == 1 ||
            $V2 == 2) {
        pc();
    } elseif (debug) { pd(); }
    else {
        pe();
    }
    pf();
    end;
}
""",
    "switch": """def 0 {
    switch ($S1) {
        case 101:
        case > 102:
            qa();
            break;
        case 103: qb();
        default:
            qc();
    }
    return;
}
""",
    "message-switch": """def 0 {
    message_SwitchTalk ($S1) {
        case 101: "x"
        case 102: 'z'
        default: "y"
    }
    ra();
    message_SwitchMonologue ($S2) { case 103: "k" }
    hold;
}
""",
    "loops": """def 0 {
    while ($V1 < 3) { sa(); continue; }
    forever { sb(); break_loop; }
    for ($A1 = 0; $V2 < 5; $A2 += 1;) {
        sc();
        if ($V3[3]) { continue; }
    }
    while not (scn($V4) > [1, 2]) {
        sd();
    }
}
""",
    "contexts-assignments": """def 0 {
    with (actor 71) { ta(); }
    with (object 72) { $A1 = 5; }
    tb<performer 73>(1, 'text');
    $A2 += 1; $A3[3] = 1;
    clear $A4;
    init $A5; reset scn($A6);
    reset dungeon_result; adventure_log = 7;
    dungeon_mode(3) = DMODE_X; $A7 = scn[1, 2];
    $A8 -= value($A9);
}
""",
    "jumps-labels": """def 0 {
    ua();
    @top;
    ub();
    if ($V1 == 1) { jump @top; }
    call @sub;
    end;
    @sub;
    uc();
    return;
}
def 1 {
    ud(); jump @lbl; ue(); @lbl; uf();
}
""",
    "nested": """def 0 {
    if ($V1 == 1) {
        switch ($S1) {
            case 101:
                forever {
                    va();
                    if ($V2 == 2) { break_loop; } else { vb(); }
                }
                break;
            default:
                vc();
        }
    } else {
        vd();
    }
}
coro Co {
    ve();
    switch (random(74)) { case 104: vf(); }
}
def 2 for actor 5 { vg(); }
""",
}


def layouts(text: str) -> list[tuple[str, str]]:
    one = " ".join(ln.strip() for ln in text.split("\n")).strip() + "\n"
    wide = "// header comment\n\n" + "\n".join(("   " + ln if ln.strip() else ln) for ln in text.split("\n"))
    broken = re.sub(r"([;{}])[ ]*(?!\n)", lambda m: m.group(1) + "\n  ", text)
    return [("canonical", text), ("one-line", one), ("shifted", wide), ("broken", broken)]


BLOCKISH = {"if_block", "elseif_block", "else_block", "switch_block", "message_switch_block", "single_case_block", "default", "while_block", "for_block", "forever_block",
            "cntrl_stmt", "jump", "call", "ctx_block"}
UNIQUE = re.compile(r"^(\$[VSA]\d+|1\d\d|7\d)$")


def expected_positions(g: Any, text: str) -> tuple[dict[str, set[tuple[int, int]]], set[tuple[int, int]], dict[str, list[tuple[int, int]]]]:
    """From the grammar's parse tree: identity token -> admissible entry positions; block starts (for generated jumps); keyword statements."""
    tree = g.parse_text("start", text)
    if tree is None:
        raise SpecError("sample does not parse")
    starts = [0] + [i + 1 for i, ch in enumerate(text) if ch == "\n"]
    import bisect

    def pos(p: int) -> tuple[int, int]:
        i = bisect.bisect_right(starts, p) - 1
        return i, p - starts[i]

    ident: dict[str, set[tuple[int, int]]] = {}
    blocks: set[tuple[int, int]] = set()
    kw: dict[str, list[tuple[int, int]]] = {}

    def toks(n: Any) -> list[Any]:
        out = []
        for c in n.children:
            if hasattr(c, "rule"):
                out.extend(toks(c))
            else:
                out.append(c)
        return out

    def add(key: str, p: tuple[int, int]) -> None:
        ident.setdefault(key, set()).add(p)

    for n in tree.walk():
        ft = n.first_token()
        if ft is None:
            continue
        p = pos(ft.pos)
        r = n.rule
        if r in BLOCKISH:
            blocks.add(p)
        if r in ("simple_def", "coro_def", "for_target_def"):
            # a Return that ends a routine whose text ends without a terminator belongs to the routine
            kw.setdefault("Return", []).append(p)
        if r == "operation":
            # the op itself and the context op of an inline context: where the statement begins
            add("op:" + n.tok("IDENTIFIER").text, p)
            ic = n.sub("inline_ctx")
            if ic is not None:
                for t in toks(ic):
                    if UNIQUE.match(t.text):
                        add("id:" + t.text, p)
        elif r in ("if_header", "switch_header", "case_header", "assignment"):
            for t in toks(n):
                if UNIQUE.match(t.text):
                    add("id:" + t.text, p)
                    break
        elif r == "if_h_negatable":
            for ty, op in (("DEBUG", "BranchDebug"), ("EDIT", "BranchEdit"), ("VARIATION", "BranchVariation")):
                if n.tok(ty) is not None:
                    kw.setdefault(op, []).append(p)
        elif r == "single_case_block":
            # the op of a message-switch case belongs to the case (its keyword or its header)
            if n.sub("string") is not None:
                for t in toks(n.sub("case_header")):
                    if UNIQUE.match(t.text):
                        add("id:" + t.text, p)
        elif r == "default" and n.sub("string") is not None:
            kw.setdefault("DefaultText", []).append(p)
        elif r == "message_switch_block":
            add("id:" + n.sub("integer_like").first_token().text, p)
        elif r == "ctx_block":
            for t in toks(n.sub("ctx_header")):
                if UNIQUE.match(t.text):
                    add("id:" + t.text, p)
        elif r == "cntrl_stmt":
            for ty, op in (("RETURN", "Return"), ("END", "End"), ("HOLD", "Hold")):
                if n.tok(ty) is not None:
                    kw.setdefault(op, []).append(p)
        elif r == "assignment_reset" and n.tok("DUNGEON_RESULT") is not None:
            kw.setdefault("flag_ResetDungeonResult", []).append(p)
        elif r == "assignment_adv_log":
            kw.setdefault("flag_SetAdventureLog", []).append(p)
        elif r == "assignment_dungeon_mode":
            kw.setdefault("flag_SetDungeonMode", []).append(p)
    return ident, blocks, kw


def direct_positions_rule(chk: Check, ctx: Any, rule: str, line_only: bool = False, only: tuple[str, ...] | None = None) -> None:
    repo = ctx.repo
    g = ctx.grammar_exps
    wc = WholeCompiler(repo, ctx.fold, g)
    anchor = repo.func("explorerscript.ssb_converting.compiler.compile_handlers.abstract:AbstractCompileHandler._register_operation") \
        if _has(repo, "explorerscript.ssb_converting.compiler.compile_handlers.abstract:AbstractCompileHandler._register_operation") \
        else repo.func("explorerscript.ssb_converting.ssb_compiler:ExplorerScriptSsbCompiler.compile")
    n_ops = 0
    n_prog = 0
    for name, text0 in PROGRAMS.items():
        if only is not None and name not in only:
            continue
        for lname, text in layouts(text0):
            n_prog += 1
            key = f"positions:{name}:{lname}"
            try:
                ident, blocks, kw = expected_positions(g, text)
                res = wc.compile(text, "$PERF")
            except SpecError as e:
                chk.unknown(rule, key, anchor, f"sample program does not parse with the grammar: {e}")
                continue
            except PyExc as e:
                chk.violation(rule, key, anchor, f"the valid sample program `{name}` ({lname} layout) is rejected: {e.cls_name}: {e.msg}")
                continue
            except Unsupported as e:
                chk.unknown(rule, key, anchor, f"abstract interpretation left the modelled subset: {e}")
                continue
            smb = res["visitor"].attrs["source_map_builder"]
            maps = smb.attrs.get("_mappings")
            if not isinstance(maps, dict):
                chk.unknown(rule, key, anchor, "SourceMapBuilder._mappings is not a dict of offset -> entry")
                continue
            problems: list[str] = []
            kw_left = {k: list(v) for k, v in kw.items()}
            for r in res["routine_ops"]:
                for op in r:
                    n_ops += 1
                    off = op.attrs["offset"]
                    oname = op.attrs["op_code"].attrs["name"]
                    ent = maps.get(off)
                    if not isinstance(ent, AObj) or "line" not in ent.attrs:
                        problems.append(f"op {off} {oname} has no source map entry")
                        continue
                    p = (ent.attrs["line"], ent.attrs["column"])
                    ps = [wc.I.str_(x) for x in op.attrs["params"]]
                    want: set[tuple[int, int]] | None = None
                    if ("op:" + oname) in ident:
                        want = ident["op:" + oname]
                    else:
                        ids = [x for x in ps if ("id:" + x) in ident]
                        if ids:
                            want = ident["id:" + ids[0]]
                        elif oname in ("Jump", "Call", "Return"):
                            # generated by a block (or a jump/return statement, or the routine end rewritten by strip_last_label)
                            want = blocks | set(kw.get(oname, []))
                        elif oname in kw:
                            want = set(kw[oname])
                    if want is None:
                        problems.append(f"op {off} {oname}{ps} could not be related to a construct of the sample")
                        continue
                    ok = p in want if not line_only else p[0] in {w[0] for w in want}
                    if not ok:
                        what = "line" if line_only else "line and column"
                        problems.append(f"op {off} {oname}{ps} is recorded at {p} (0-based); its statement / header begins at {sorted(want)[:3]} ({what})")
            chk.decide(rule, key, not problems, anchor, f"sample `{name}` in {lname} layout: " + "; ".join(problems[:4]) + f" -- program: {text!r}"[:400],
                       "every emitted op is recorded where its statement, condition, switch or case header begins")
    chk.floor(rule, "laid-out sample programs compiled abstractly", n_prog, 8 if only else 24)
    chk.floor(rule, "ops whose source position was compared", n_ops, 60 if only else 350)


def _has(repo: Any, spec: str) -> bool:
    try:
        repo.func(spec)
        return True
    except Exception:
        return False
