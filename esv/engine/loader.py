"""Source loader and symbol table for the repository under analysis.

Nothing of the repository is imported or executed: every module is parsed with
``ast`` and a small symbol table (imports, classes, functions, module-level
assignments) is built on top of the trees.
"""

from __future__ import annotations

import ast
import hashlib
import os
from dataclasses import dataclass, field
from pathlib import Path
from typing import Iterator


class AnalysisError(Exception):
    """The analysis cannot establish its facts (vanished anchor, unknown idiom)."""


def repo_root() -> Path:
    return Path(os.environ.get("ESV_REPO", "/repo"))


@dataclass
class Cls:
    name: str
    mod: "Mod"
    node: ast.ClassDef
    base_exprs: list[ast.expr]
    methods: dict[str, ast.FunctionDef] = field(default_factory=dict)
    class_assigns: dict[str, ast.expr] = field(default_factory=dict)

    @property
    def qual(self) -> str:
        return f"{self.mod.name}.{self.name}"

    def __hash__(self) -> int:
        return hash(self.qual)

    def __eq__(self, other: object) -> bool:
        return isinstance(other, Cls) and other.qual == self.qual

    def __repr__(self) -> str:
        return f"<Cls {self.qual}>"


@dataclass
class Mod:
    name: str
    path: Path
    relpath: str
    src: str
    tree: ast.Module
    imports: dict[str, str] = field(default_factory=dict)  # local name -> qualified target
    classes: dict[str, Cls] = field(default_factory=dict)
    funcs: dict[str, ast.FunctionDef] = field(default_factory=dict)
    assigns: dict[str, ast.expr] = field(default_factory=dict)
    lines: list[str] = field(default_factory=list)

    def __hash__(self) -> int:
        return hash(self.name)

    def __eq__(self, other: object) -> bool:
        return isinstance(other, Mod) and other.name == self.name


@dataclass
class Func:
    """A resolved function or method."""

    mod: Mod
    cls: Cls | None
    node: ast.FunctionDef

    @property
    def qual(self) -> str:
        if self.cls is not None:
            return f"{self.mod.name}:{self.cls.name}.{self.node.name}"
        return f"{self.mod.name}:{self.node.name}"

    @property
    def short(self) -> str:
        if self.cls is not None:
            return f"{self.cls.name}.{self.node.name}"
        return self.node.name

    def __hash__(self) -> int:
        return hash(self.qual)

    def __eq__(self, other: object) -> bool:
        return isinstance(other, Func) and other.qual == self.qual

    def __repr__(self) -> str:
        return f"<Func {self.qual}>"


class Repo:
    PKG = "explorerscript"

    def __init__(self, root: Path | None = None) -> None:
        self.root = Path(root) if root is not None else repo_root()
        self.modules: dict[str, Mod] = {}
        self.digests: dict[str, str] = {}
        self._load()

    # ------------------------------------------------------------------ loading
    def _load(self) -> None:
        pkg_root = self.root / self.PKG
        if not pkg_root.is_dir():
            raise AnalysisError(f"package directory {pkg_root} not found")
        for path in sorted(pkg_root.rglob("*.py")):
            rel = path.relative_to(self.root)
            parts = list(rel.with_suffix("").parts)
            if parts[-1] == "__init__":
                parts = parts[:-1]
            name = ".".join(parts)
            src = path.read_text(encoding="utf-8")
            self.digests[str(rel)] = hashlib.sha256(src.encode("utf-8")).hexdigest()[:16]
            if "antlr" in parts and parts[-1] not in ("antlr",):
                # generated code: only parsed lazily by the grammar model
                continue
            try:
                tree = ast.parse(src, filename=str(path))
            except SyntaxError as e:  # pragma: no cover
                raise AnalysisError(f"cannot parse {rel}: {e}")
            mod = Mod(name, path, str(rel), src, tree, lines=src.splitlines())
            self._index(mod)
            self.modules[name] = mod
        self._refuse_rebinding()

    def _refuse_rebinding(self) -> None:
        """The model binds a method name to the `def` (or class-body alias) it finds in the class.  Code that rebinds methods or functions of
        the package from outside - `SomeClass.method = f`, `setattr(SomeClass, ...)`, `module.func = g` - would make that model wrong without a
        trace, so a tree that does it is refused (exit 2) rather than analysed."""
        for mod in self.modules.values():
            for n in ast.walk(mod.tree):
                if isinstance(n, ast.ClassDef):
                    hooks = [b.name for b in n.body if isinstance(b, (ast.FunctionDef, ast.AsyncFunctionDef)) and b.name in (
                        "__getattr__", "__getattribute__", "__setattr__", "__delattr__", "__init_subclass__", "__set_name__", "__get__", "__set__", "__del__")]
                    if hooks or any(k.arg == "metaclass" for k in n.keywords):
                        what = hooks[0] if hooks else "a metaclass"
                        raise AnalysisError(f"{mod.relpath}:{n.lineno}: class {n.name} defines {what}; attribute and creation hooks are not modelled")
                tg: list[ast.expr] = []
                if isinstance(n, ast.Assign):
                    tg = list(n.targets)
                elif isinstance(n, (ast.AugAssign, ast.AnnAssign)) and getattr(n, "value", None) is not None:
                    tg = [n.target]
                for t in tg:
                    if isinstance(t, ast.Attribute) and isinstance(t.value, ast.Name) and t.value.id not in ("self", "cls"):
                        r = self.resolve(mod, t.value.id)
                        # data attributes written through the class are shared state (C11/C12 report them); names of methods / functions are code
                        is_code = r is not None and ((r[0] == "class" and (any(t.attr in k.methods for k in self.mro(r[1])) or t.attr.startswith(("visit", "enter", "exit"))))  # type: ignore[arg-type]
                                                     or (r[0] == "module" and (t.attr in r[1].funcs or t.attr in r[1].classes)))  # type: ignore[union-attr]
                        if is_code:
                            raise AnalysisError(f"{mod.relpath}:{n.lineno}: `{ast.unparse(t)} = ...` rebinds an attribute of a class or module of the package from "
                                                "outside; the analysis does not model rebinding")
                if isinstance(n, ast.Call) and isinstance(n.func, ast.Name) and n.func.id in ("setattr", "delattr") and n.args:
                    a0 = n.args[0]
                    r = self.resolve(mod, a0.id) if isinstance(a0, ast.Name) else None
                    if (r is not None and r[0] in ("class", "module")) or (isinstance(a0, ast.Call) and dotted(a0.func) == "type") \
                            or (isinstance(a0, ast.Attribute) and a0.attr == "__class__"):
                        raise AnalysisError(f"{mod.relpath}:{n.lineno}: `{ast.unparse(n)[:80]}` rebinds an attribute of a class or module at run time; "
                                            "the analysis does not model rebinding")

    def _index(self, mod: Mod) -> None:
        for node in self._toplevel(mod.tree.body):
            if isinstance(node, ast.Import):
                for a in node.names:
                    mod.imports[a.asname or a.name.split(".")[0]] = a.name if a.asname else a.name.split(".")[0]
            elif isinstance(node, ast.ImportFrom):
                base = node.module or ""
                if node.level:
                    pkg = mod.name.split(".")
                    if not mod.path.name == "__init__.py":
                        pkg = pkg[:-1]
                    pkg = pkg[: len(pkg) - (node.level - 1)]
                    base = ".".join(pkg + ([base] if base else []))
                for a in node.names:
                    mod.imports[a.asname or a.name] = f"{base}.{a.name}"
            elif isinstance(node, ast.ClassDef):
                c = Cls(node.name, mod, node, list(node.bases))
                for sub in node.body:
                    if isinstance(sub, (ast.FunctionDef, ast.AsyncFunctionDef)):
                        c.methods[sub.name] = sub  # type: ignore[assignment]
                    elif isinstance(sub, ast.Assign):
                        for t in sub.targets:
                            if isinstance(t, ast.Name):
                                c.class_assigns[t.id] = sub.value
                    elif isinstance(sub, ast.AnnAssign) and isinstance(sub.target, ast.Name) and sub.value is not None:
                        c.class_assigns[sub.target.id] = sub.value
                mod.classes[node.name] = c
            elif isinstance(node, (ast.FunctionDef, ast.AsyncFunctionDef)):
                mod.funcs[node.name] = node  # type: ignore[assignment]
            elif isinstance(node, ast.Assign):
                for t in node.targets:
                    if isinstance(t, ast.Name):
                        mod.assigns[t.id] = node.value
            elif isinstance(node, ast.AnnAssign) and isinstance(node.target, ast.Name) and node.value is not None:
                mod.assigns[node.target.id] = node.value

    @staticmethod
    def _toplevel(body: list[ast.stmt]) -> Iterator[ast.stmt]:
        """Module-level statements, looking through ``if``/``try`` wrappers."""
        for node in body:
            if isinstance(node, ast.If):
                # `if TYPE_CHECKING:` / version checks: index both arms
                yield from Repo._toplevel(node.body)
                yield from Repo._toplevel(node.orelse)
            elif isinstance(node, ast.Try):
                yield from Repo._toplevel(node.body)
                for h in node.handlers:
                    yield from Repo._toplevel(h.body)
            else:
                yield node

    # ------------------------------------------------------------------ lookup
    def mod(self, name: str) -> Mod:
        if not name.startswith(self.PKG):
            name = f"{self.PKG}.{name}"
        if name not in self.modules:
            raise AnalysisError(f"anchor module {name} not found")
        return self.modules[name]

    def resolve(self, mod: Mod, name: str, _depth: int = 0) -> tuple[str, object] | None:
        """Resolve a (possibly dotted) name used in ``mod`` to ('class'|'func'|'const'|'module', obj)."""
        if _depth > 8:
            return None
        head, _, rest = name.partition(".")
        if head in mod.classes:
            c = mod.classes[head]
            if not rest:
                return ("class", c)
            if rest in c.class_assigns:
                return ("classattr", (c, rest))
            if rest in c.methods:
                return ("func", Func(mod, c, c.methods[rest]))
            # nested classes
            for sub in c.node.body:
                if isinstance(sub, ast.ClassDef) and sub.name == rest:
                    return ("class", Cls(f"{c.name}.{rest}", mod, sub, list(sub.bases)))
            return None
        if head in mod.funcs and not rest:
            return ("func", Func(mod, None, mod.funcs[head]))
        if head in mod.assigns and not rest:
            return ("const", (mod, head))
        if head in mod.imports:
            target = mod.imports[head]
            # target is "pkg.mod.Name" or "pkg.mod"
            if target in self.modules:
                m2 = self.modules[target]
                if not rest:
                    return ("module", m2)
                return self.resolve(m2, rest, _depth + 1)
            tmod, _, tname = target.rpartition(".")
            if tmod in self.modules:
                return self.resolve(self.modules[tmod], tname + (("." + rest) if rest else ""), _depth + 1)
            return ("external", target + (("." + rest) if rest else ""))
        return None

    def cls(self, qual: str) -> Cls:
        """``module.path.ClassName`` (package prefix optional)."""
        modname, _, cname = qual.rpartition(".")
        m = self.mod(modname)
        if cname not in m.classes:
            raise AnalysisError(f"anchor class {qual} not found")
        return m.classes[cname]

    def find_class(self, cname: str) -> Cls:
        hits = [m.classes[cname] for m in self.modules.values() if cname in m.classes]
        if len(hits) != 1:
            raise AnalysisError(f"anchor class {cname}: {len(hits)} definitions")
        return hits[0]

    def func(self, spec: str) -> Func:
        """``module.path:func`` or ``module.path:Class.method`` (method looked up through the MRO)."""
        modname, _, fname = spec.partition(":")
        m = self.mod(modname)
        if "." in fname:
            cname, _, meth = fname.partition(".")
            if cname not in m.classes:
                raise AnalysisError(f"anchor class {modname}.{cname} not found")
            f = self.find_method(m.classes[cname], meth)
            if f is None:
                raise AnalysisError(f"anchor method {spec} not found")
            return f
        if fname not in m.funcs:
            raise AnalysisError(f"anchor function {spec} not found")
        return Func(m, None, m.funcs[fname])

    def bases(self, c: Cls) -> list[Cls]:
        out = []
        for b in c.base_exprs:
            e = b
            while isinstance(e, ast.Subscript):  # Generic[...] parametrisation
                e = e.value
            name = dotted(e)
            if name is None:
                continue
            r = self.resolve(c.mod, name)
            if r and r[0] == "class":
                out.append(r[1])
            elif r and r[0] == "const":
                # type alias: X: TypeAlias = Base[...]
                m2, n2 = r[1]  # type: ignore[misc]
                e2 = m2.assigns[n2]
                while isinstance(e2, ast.Subscript):
                    e2 = e2.value
                n3 = dotted(e2)
                if n3:
                    r2 = self.resolve(m2, n3)
                    if r2 and r2[0] == "class":
                        out.append(r2[1])
        return out  # type: ignore[return-value]

    def mro(self, c: Cls) -> list[Cls]:
        cache = self.__dict__.setdefault("_mro_cache", {})
        if c.qual in cache:
            return cache[c.qual]  # type: ignore[no-any-return]
        seen: list[Cls] = []

        def walk(k: Cls) -> None:
            if k in seen:
                return
            seen.append(k)
            for b in self.bases(k):
                walk(b)

        walk(c)
        cache[c.qual] = seen
        return seen

    def find_method(self, c: Cls, name: str) -> Func | None:
        cache = self.__dict__.setdefault("_method_cache", {})
        key = (c.qual, name)
        if key in cache:
            return cache[key]  # type: ignore[no-any-return]
        res = None
        for k in self.mro(c):
            if name in k.methods:
                res = Func(k.mod, k, k.methods[name])
                break
            if name in k.class_assigns:
                # `visitA = visitB = _helper` in a class body: the name is another spelling of a function
                v: ast.expr | None = k.class_assigns[name]
                seen = {name}
                while isinstance(v, ast.Name) and v.id in k.class_assigns and v.id not in k.methods and v.id not in seen:
                    seen.add(v.id)
                    v = k.class_assigns[v.id]
                if isinstance(v, ast.Name) and v.id in k.methods:
                    res = Func(k.mod, k, k.methods[v.id])
                elif isinstance(v, ast.Name) and v.id in k.mod.funcs:
                    res = Func(k.mod, None, k.mod.funcs[v.id])
                elif isinstance(v, ast.Lambda):
                    raise AnalysisError(f"{k.qual}.{name} is a lambda stored in the class body; method aliases of this kind are not modelled")
                break  # a class attribute of this name hides the methods of the base classes
        cache[key] = res
        return res

    def all_classes(self) -> Iterator[Cls]:
        for m in self.modules.values():
            yield from m.classes.values()

    def subclasses(self, c: Cls, strict: bool = False) -> list[Cls]:
        out = []
        for k in self.all_classes():
            if c in self.mro(k) and not (strict and k == c):
                out.append(k)
        return out

    def is_subclass(self, c: Cls, base: Cls) -> bool:
        return base in self.mro(c)

    def all_funcs(self) -> Iterator[Func]:
        for m in self.modules.values():
            for f in m.funcs.values():
                yield Func(m, None, f)
            for c in m.classes.values():
                for f in c.methods.values():
                    yield Func(m, c, f)

    def read_text(self, rel: str) -> str:
        p = self.root / rel
        if not p.is_file():
            raise AnalysisError(f"anchor file {rel} not found")
        s = p.read_text(encoding="utf-8")
        self.digests[rel] = hashlib.sha256(s.encode("utf-8")).hexdigest()[:16]
        return s


# ---------------------------------------------------------------------- helpers
def dotted(e: ast.AST) -> str | None:
    if isinstance(e, ast.Name):
        return e.id
    if isinstance(e, ast.Attribute):
        b = dotted(e.value)
        return f"{b}.{e.attr}" if b else None
    if isinstance(e, ast.Constant) and isinstance(e.value, str):
        # forward reference in a string annotation
        return e.value if e.value.replace(".", "").replace("_", "").isalnum() else None
    return None


def norm(node: ast.AST) -> str:
    """Normalised text of a statement or expression (layout/comment independent)."""
    try:
        s = ast.unparse(node)
    except Exception:  # pragma: no cover
        s = ast.dump(node)
    s = " ".join(s.split())
    return s if len(s) <= 160 else s[:157] + "..."


def head(node: ast.AST) -> str:
    """Normalised text of the first line of a compound statement."""
    if isinstance(node, (ast.If, ast.While)):
        return ("if " if isinstance(node, ast.If) else "while ") + norm(node.test)
    if isinstance(node, ast.For):
        return f"for {norm(node.target)} in {norm(node.iter)}"
    if isinstance(node, (ast.FunctionDef, ast.ClassDef)):
        return f"def {node.name}" if isinstance(node, ast.FunctionDef) else f"class {node.name}"
    if isinstance(node, ast.With):
        return "with " + ", ".join(norm(i.context_expr) for i in node.items)
    if isinstance(node, ast.Try):
        return "try"
    return norm(node)


def walk_no_nested(node: ast.AST) -> Iterator[ast.AST]:
    """ast.walk that does not descend into nested function/class/lambda definitions."""
    stack = [node]
    first = True
    while stack:
        n = stack.pop()
        if not first and isinstance(n, (ast.FunctionDef, ast.AsyncFunctionDef, ast.ClassDef, ast.Lambda)):
            continue
        first = False
        yield n
        stack.extend(reversed(list(ast.iter_child_nodes(n))))


def parents(root: ast.AST) -> dict[ast.AST, ast.AST]:
    p: dict[ast.AST, ast.AST] = {}
    for n in ast.walk(root):
        for c in ast.iter_child_nodes(n):
            p[c] = n
    return p


def calls_in(node: ast.AST) -> Iterator[ast.Call]:
    for n in walk_no_nested(node):
        if isinstance(n, ast.Call):
            yield n


def call_name(c: ast.Call) -> str | None:
    return dotted(c.func)
