from wlib import *
import random
hdr = "//?: is-ssb-script: true\n"
cases = ["def { }", "def 0 for actor { x(); }", "def 0 for { x(); }", "coro { x(); }", "def 0 { x(Position<'a', 1>); }", "def 0 { x(Position<>); }",
 "def 0 { x({a=}); }", "def 0 { x(@); }", "def 0 { @; }", "def 0 { x<actor 1>(); }", "def 0 for_actor { }", "def 0 { x(1, ); }", "def", "def 0 { x(Position<'a', 1.3, 2>); }",
 "def 0 { x( }", "def 0 for actor ( { x(); }", "def 0 { x({=''}); }", "def 0 { (); }", "def 0 {", "def 0 { x(1 2); }", "def 0 { jump @a; }", "coro A { x(); } def { y(); }"]
bad = {}
for s in cases:
    for h in (hdr, ""):
        try:
            comp(h + s)
        except Exception as e:
            n = type(e).__name__
            if n not in ("ParseError", "SsbCompilerError", "ValueError"):
                bad.setdefault(n, []).append((h != "", s, str(e)[:80]))
for k, v in bad.items():
    print(k)
    for x in v: print("   ", x)
# random token soup
toks = ["def", "coro", "0", "1", "{", "}", "(", ")", ";", "x", "A", "@", "l", ",", "'s'", "Position", "<", ">", "for", "actor", "alias", "previous", "=", "1.5", "§", "for_actor", "$v", "jump", "if", "not", "debug", "switch", "case", ":", "default", "forever", "while", "macro", "~m", "import", "return", "break", "continue", "break_loop", "with", "[", "]", "==", "scn", "value", "+=", "else", "elseif", "||"]
random.seed(1)
cnt = {}
for i in range(6000):
    n = random.randint(1, 14)
    s = " ".join(random.choice(toks) for _ in range(n))
    for h in (hdr, ""):
        try:
            comp(h + s)
        except Exception as e:
            nme = type(e).__name__
            cnt[nme] = cnt.get(nme, 0) + 1
            if nme not in ("ParseError", "SsbCompilerError", "ValueError") and cnt[nme] < 4:
                print(nme, h != "", repr(s), str(e)[:100])
print(cnt)
