"""C18 — the position-mark listing delimits every Position literal exactly."""

from __future__ import annotations

import ast
from typing import Any

from ..engine import astq
from ..engine.dispatch import visitor_table, statement_visitor_table
from ..engine.loader import AnalysisError, Func, dotted, norm, walk_no_nested
from ..engine.report import Check, fkey

PMV = "explorerscript.ssb_converting.compiler.compiler_visitor.position_mark_visitor.PositionMarkVisitor"
MARK_FIELDS = ["name", "x_offset", "y_offset", "x_relative", "y_relative"]


def position_expr_kind(e: ast.AST) -> tuple[str, str] | None:
    """('<ctx>', 'start.line-1' | 'start.column' | 'stop.line-1' | 'stop.column' | other text)."""
    def chain(x: ast.AST) -> list[str] | None:
        parts = []
        while isinstance(x, ast.Attribute):
            parts.append(x.attr)
            x = x.value
        if isinstance(x, ast.Name):
            parts.append(x.id)
            return list(reversed(parts))
        if isinstance(x, ast.Call):  # self.ctx.ctx_header() ...
            c = chain(x.func)
            return c
        return None

    if isinstance(e, ast.BinOp) and isinstance(e.op, ast.Sub) and isinstance(e.right, ast.Constant):
        c = chain(e.left)
        if c and len(c) >= 3 and c[-1] == "line" and c[-2] in ("start", "stop"):
            return ".".join(c[:-2]), f"{c[-2]}.line-{e.right.value}"
    if isinstance(e, ast.BinOp) and isinstance(e.op, ast.Add) and isinstance(e.right, ast.Constant):
        c = chain(e.left)
        if c and len(c) >= 3 and c[-1] in ("line", "column") and c[-2] in ("start", "stop"):
            return ".".join(c[:-2]), f"{c[-2]}.{c[-1]}+{e.right.value}"
    c = chain(e)
    if c and len(c) >= 3 and c[-1] in ("line", "column") and c[-2] in ("start", "stop"):
        return ".".join(c[:-2]), f"{c[-2]}.{c[-1]}"
    return None


WANT_SPAN = {
    "line_number": "start.line-1",
    "column_number": "start.column",
    "end_line_number": "stop.line-1",
    "end_column_number": "stop.column",
}


def check_mark_construction(chk: Check, ctx: Any, rule_span: str, rule_fields: str, f: Func, call: ast.Call,
                            own_ctx: set[str] | None, span_required: bool) -> None:
    """A SourceMapPositionMark(...) site: field roles in constructor order; span expressions when token based."""
    repo = ctx.repo
    cls = repo.cls("explorerscript.source_map.SourceMapPositionMark")
    init = repo.find_method(cls, "__init__")
    assert init is not None
    params = astq.params_of(init.node)
    try:
        bound = astq.bind_call_args(call, params)
    except AnalysisError as e:
        chk.unknown(rule_fields, fkey(f, call), f, str(e), node=call)
        return
    bound = {k: astq.inline_locals(f.node, v) for k, v in bound.items()}
    for p in MARK_FIELDS:
        if p not in bound:
            chk.unknown(rule_fields, fkey(f, None, f"{p}@{norm(call)[:40]}"), f, f"argument for {p} missing", node=call)
            continue
        e = bound[p]
        got = e.attr if isinstance(e, ast.Attribute) else e.id if isinstance(e, ast.Name) else None
        key = fkey(f, None, f"SourceMapPositionMark.{p}")
        if got == p:
            chk.hold(rule_fields, key, f, f"{p} <- {norm(e)}", node=call)
        elif got in MARK_FIELDS:
            chk.violation(rule_fields, key, f, f"SourceMapPositionMark field {p} is fed from {norm(e)} (a different mark field)", node=call)
        else:
            chk.unknown(rule_fields, key, f, f"cannot relate argument {norm(e)} to field {p}", node=call)
    for p, want in WANT_SPAN.items():
        if p not in bound:
            continue
        e = bound[p]
        key = fkey(f, None, f"SourceMapPositionMark.{p}")
        k = position_expr_kind(e)
        if k is None:
            if span_required:
                chk.unknown(rule_span, key, f, f"span argument {p} = {norm(e)} is not a token position expression", node=call)
            continue
        base, kind = k
        if own_ctx is not None and base not in own_ctx:
            chk.violation(rule_span, key, f, f"{p} is taken from {base}, not from the construct's own context {sorted(own_ctx)}", node=call)
        elif kind != want:
            chk.violation(rule_span, key, f,
                          f"{p} is computed as <ctx>.{kind} but must be <ctx>.{want} (ANTLR lines are 1-based, columns 0-based; "
                          "the span runs from the first to the last token of the literal)", node=call)
        else:
            chk.hold(rule_span, key, f, f"{p} = <{base}>.{kind}", node=call)


def run(chk: Check, ctx: Any) -> None:
    repo = ctx.repo
    g = ctx.grammar_exps
    chk.explanation = (
        "Decides for all parsable sources: the position-mark visitor cuts no subtree of the parse tree that can contain a "
        "position_marker (grammar reachability), aggregates results in visit order, builds each span from start.line-1 / "
        "start.column / stop.line-1 / stop.column of the literal's own context (whose first token is POSITION and last CLOSE_SHARP "
        "in the grammar), and obtains name/coordinates through the same handler classes and argument parser as the compiler, with "
        "agreeing tuple roles and half-tile constants. Not decided: the textual replacement clause on names (needs C04)."
        " (R4, interpreter-based) the listing visitor is evaluated on sample sources and compared with the literals of the grammar's own parse tree."
    )
    chk.rule("C18-R1", "no visit* override of PositionMarkVisitor cuts a subtree that can contain position_marker; results are returned and "
                       "concatenated in visit order")
    chk.rule("C18-R2", "span = (ctx.start.line-1, ctx.start.column, ctx.stop.line-1, ctx.stop.column) of the position_marker context; "
                       "grammar: first token POSITION, last token CLOSE_SHARP")
    chk.rule("C18-R4", "the listing visitor, interpreted on sample sources (marks in routines, macro bodies, macro-call arguments, switch/if/while headers, "
                       "contexts, several per line, spread over lines, mark-like text inside strings), returns exactly the literals of the grammar's parse tree "
                       "in source order with exact spans and values; the printed form of a mark compiles back to the same mark")
    chk.rule("C18-R3", "visitor and compiler use the same handler classes and parse_position_marker_arg; every SourceMapPositionMark(...) "
                       "site feeds each mark field from the like-named value; (pos, offset) tuple roles and the half-tile constant agree "
                       "between parser, handler and printer")

    cls = repo.cls(PMV)
    table = visitor_table(repo, cls, ctx.fold)
    reach_pm = {r for r in g.parser_rules if "position_marker" in g.reachable(r)}
    chk.floor("C18-R1", "parser rules that can contain position_marker", len(reach_pm), 15)
    # R1 -------------------------------------------------------------------------------
    if "position_marker" not in table:
        chk.violation("C18-R1", "visitPosition_marker", cls.mod, "PositionMarkVisitor has no visitPosition_marker: no mark is ever reported")
        return
    for rule, d in sorted(table.items()):
        if rule in ("position_marker",):
            continue
        key = f"{cls.name}.{d.method.node.name}"
        if rule not in g.rules:
            chk.unknown("C18-R1", key, d.method, f"override for unknown grammar rule {rule}")
            continue
        if rule == "position_marker_arg":
            chk.hold("C18-R1", key, d.method, "argument rule (below position_marker)")
            continue
        if rule in reach_pm:
            if d.visits_children and d.returns_children:
                chk.hold("C18-R1", key, d.method, "returns visitChildren(ctx)")
            else:
                _manual_traversal(chk, g, key, rule, d.method)
        else:
            chk.hold("C18-R1", key, d.method, f"'{rule}' cannot contain position_marker")
    # aggregateResult / defaultResult
    agg = repo.find_method(cls, "aggregateResult")
    dflt = repo.find_method(cls, "defaultResult")
    if agg is None or agg.cls != cls or dflt is None or dflt.cls != cls:
        chk.unknown("C18-R1", "aggregateResult", cls.mod, "aggregateResult/defaultResult are not overridden in PositionMarkVisitor")
    else:
        ps = astq.params_of(agg.node)
        a, nx = ps[0], ps[1]
        problems = []
        seen_list = seen_single = False
        for n in walk_no_nested(agg.node):
            if isinstance(n, ast.Return) and isinstance(n.value, ast.BinOp) and isinstance(n.value.op, ast.Add):
                l, r = norm(n.value.left), norm(n.value.right)
                if (l, r) == (a, nx):
                    seen_list = True
                elif (l, r) == (nx, a):
                    problems.append(f"`return {l} + {r}` puts later results before earlier ones")
            if isinstance(n, ast.Call) and isinstance(n.func, ast.Attribute) and norm(n.func.value) == a:
                if n.func.attr == "append" and len(n.args) == 1 and norm(n.args[0]) == nx:
                    seen_single = True
                elif n.func.attr in ("insert", "appendleft"):
                    problems.append(f"`{norm(n)}` does not keep visit order")
        rets = [norm(r.value) for r in astq.returns_of(agg.node) if r.value is not None]
        if any(r == nx for r in rets):
            problems.append("returns only the next result (earlier marks dropped)")
        if problems:
            chk.violation("C18-R1", "aggregateResult", agg, "; ".join(problems))
        elif seen_list and seen_single:
            chk.hold("C18-R1", "aggregateResult", agg, "aggregate + nextResult / aggregate.append(nextResult)")
        else:
            chk.unknown("C18-R1", "aggregateResult", agg, "aggregation idiom not recognised")
        dr = astq.single_return_expr(dflt.node)
        chk.decide("C18-R1", "defaultResult", isinstance(dr, ast.List) and not dr.elts if dr is not None else None, dflt,
                   f"defaultResult returns {norm(dr) if dr is not None else '?'} instead of an empty list", "empty list")

    # R2 -------------------------------------------------------------------------------
    pm = g.rules["position_marker"]
    firsts = {s.elems[0].value for s in pm.alts}
    lasts = {s.elems[-1].value for s in pm.alts}
    chk.decide("C18-R2", "grammar:position_marker", firsts == {"POSITION"} and lasts == {"CLOSE_SHARP"}, ("explorerscript/antlr/SsbCommon.g4", 0),
               f"position_marker starts with {firsts} and ends with {lasts}; the span rule assumes POSITION ... CLOSE_SHARP",
               "first token POSITION, last token CLOSE_SHARP")
    vpm = table["position_marker"].method
    ctxp = astq.params_of(vpm.node)[0]
    calls = [c for c in walk_no_nested(vpm.node) if isinstance(c, ast.Call) and dotted(c.func) == "SourceMapPositionMark"]
    rets = astq.returns_of(vpm.node)
    if len(calls) != 1 or not rets:
        chk.unknown("C18-R2", "visitPosition_marker:shape", vpm, "visitPosition_marker does not build exactly one SourceMapPositionMark")
    else:
        ret = astq.inline_locals(vpm.node, rets[0].value) if rets[0].value is not None else None
        chk.decide("C18-R2", "visitPosition_marker:returns-mark", isinstance(ret, ast.Call) and dotted(ret.func) == "SourceMapPositionMark",
                   vpm, "visitPosition_marker does not return the mark it builds", "returns the mark")
        check_mark_construction(chk, ctx, "C18-R2", "C18-R3", vpm, calls[0], {ctxp}, True)
        # the parameter object comes from PositionMarkerCompileHandler(ctx, ...).collect() fed by visitChildren(ctx) in order
        handler_vars = {}
        for n in walk_no_nested(vpm.node):
            if isinstance(n, ast.Assign) and isinstance(n.value, ast.Call) and isinstance(n.targets[0], ast.Name):
                d = dotted(n.value.func)
                r = repo.resolve(vpm.mod, d) if d else None
                if r and r[0] == "class":
                    handler_vars[n.targets[0].id] = (r[1], n.value)
        stmt_table = statement_visitor_table(repo, ctx.fold)
        want_h = stmt_table.get("position_marker")
        want_a = stmt_table.get("position_marker_arg")
        if want_h is None or want_h.handler is None or want_a is None or want_a.handler is None:
            raise AnalysisError("StatementVisitor has no dispatch for position_marker / position_marker_arg")
        got_h = [c for c, _call in handler_vars.values()]
        chk.decide("C18-R3", "visitor:marker-handler", want_h.handler in got_h, vpm,
                   f"visitor builds the mark with {[c.name for c in got_h]} but the compiler uses {want_h.handler.name}",
                   f"same handler class as the compiler ({want_h.handler.name})")
        for _var, (hc, hcall) in handler_vars.items():
            if hc == want_h.handler:
                chk.decide("C18-R3", "visitor:marker-handler-ctx", bool(hcall.args) and norm(hcall.args[0]) == ctxp, vpm,
                           "the handler is constructed for a different context than the visited literal", "handler built for the visited ctx")
        loops = [n for n in walk_no_nested(vpm.node) if isinstance(n, ast.For)]
        ok_loop = any(isinstance(l.iter, ast.Call) and dotted(l.iter.func) == "self.visitChildren" and
                      any(isinstance(c, ast.Call) and isinstance(c.func, ast.Attribute) and c.func.attr == "add" for c in ast.walk(l))
                      for l in loops)
        rev = any(isinstance(l.iter, ast.Call) and dotted(l.iter.func) in ("reversed", "sorted") for l in loops)
        chk.decide("C18-R3", "visitor:args-in-order", False if rev else (ok_loop or None), vpm,
                   "argument handlers are not added in source order (x before y)", "argument handlers added in visit order")
        vpa = table.get("position_marker_arg")
        if vpa is None:
            chk.violation("C18-R3", "visitor:arg-handler", cls.mod, "PositionMarkVisitor has no visitPosition_marker_arg: coordinates are never collected")
        else:
            e = astq.single_return_expr(vpa.method.node)
            d = dotted(e.func) if isinstance(e, ast.Call) else None
            r = repo.resolve(vpa.method.mod, d) if d else None
            chk.decide("C18-R3", "visitor:arg-handler", (r is not None and r[0] == "class" and r[1] == want_a.handler) if r else None,
                       vpa.method, f"visitor parses arguments with {d}, the compiler with {want_a.handler.name}",
                       f"same argument handler as the compiler ({want_a.handler.name})")
        # argument handler -> parse_position_marker_arg, tuple roles
        _tuple_roles(chk, ctx, want_h.handler, want_a.handler)

    # the printed form of an (edited) mark must parse back: the name is escaped for the quote it is printed in
    from .c04 import quoted_hole_rule
    pstr = repo.func("explorerscript.ssb_converting.ssb_data_types:SsbOpParamPositionMarker.__str__")
    pret = astq.single_return_expr(pstr.node)
    if pret is not None:
        quoted_hole_rule(chk, ctx, "C18-R3", pstr, pret)
    else:
        chk.unknown("C18-R3", "position-marker:__str__", pstr, "__str__ has no single return expression")

    # all construction sites of SourceMapPositionMark (sibling agreement)
    n_sites = 0
    for f in repo.all_funcs():
        if f.cls is not None and f.cls.name == "SourceMapPositionMark":
            continue
        if f == vpm:
            n_sites += 1
            continue
        for c in walk_no_nested(f.node):
            if isinstance(c, ast.Call) and dotted(c.func) == "SourceMapPositionMark":
                n_sites += 1
                check_mark_construction(chk, ctx, "C18-R2", "C18-R3", f, c, None, False)
    chk.floor("C18-R3", "SourceMapPositionMark construction sites", n_sites, 5)
    listing_rule(chk, ctx, "C18-R4")
    from .c04 import print_parse_rule
    print_parse_rule(chk, ctx, "C18-R4", kinds=("position mark",))
    edited_mark_rule(chk, ctx, "C18-R4")



def _manual_traversal(chk: Check, g: Any, key: str, rule: str, f: Func) -> None:
    """An override that walks the children itself: complete and in source order?"""
    fn = f.node
    ctxp = astq.params_of(fn)[0] if astq.params_of(fn) else "ctx"
    visits = [c for c in walk_no_nested(fn) if isinstance(c, ast.Call) and isinstance(c.func, ast.Attribute)
              and c.func.attr in ("visit", "accept", "visitChildren")]
    if not visits:
        chk.violation("C18-R1", key, f, f"{fn.name} overrides the traversal of '{rule}', which can contain Position literals, "
                                      "without visiting its children: marks inside it are lost")
        return
    # what is iterated?
    accessors: list[str] = []
    generic = False
    for n in walk_no_nested(fn):
        if isinstance(n, ast.Call) and isinstance(n.func, ast.Attribute) and isinstance(n.func.value, ast.Name) \
                and n.func.value.id == ctxp and not n.args:
            if n.func.attr in ("getChildren",):
                generic = True
            elif n.func.attr in g.rules:
                accessors.append(n.func.attr)
        if isinstance(n, ast.Attribute) and isinstance(n.value, ast.Name) and n.value.id == ctxp and n.attr == "children":
            generic = True
    reversed_iter = any(isinstance(n, ast.Call) and dotted(n.func) in ("reversed", "sorted") for n in walk_no_nested(fn))
    if reversed_iter:
        chk.violation("C18-R1", key, f, f"{fn.name} visits the children of '{rule}' in a re-ordered sequence: marks are not listed in source order")
        return
    if generic and not accessors:
        chk.unknown("C18-R1", key, f, f"{fn.name} walks ctx.children itself; completeness of the aggregation not established")
        return
    # typed accessors: every child rule that can contain position_marker must be walked; and two accessors whose
    # children can interleave in the grammar rule must not be concatenated
    child_rules = {r for r in g.refs(rule) if r in g.rules and not g.rules[r].is_lexer}
    need = {r for r in child_rules if "position_marker" in g.reachable(r)}
    missing = sorted(need - set(accessors))
    if missing:
        chk.violation("C18-R1", key, f, f"{fn.name} walks only {sorted(set(accessors))} of '{rule}'; Position literals below {missing} are lost")
        return
    walked = [a for a in accessors if a in need]
    if len(set(walked)) > 1 and _can_interleave(g, rule, set(walked)):
        chk.violation("C18-R1", key, f,
                      f"{fn.name} visits all {walked[0]} children and then all {walked[1]} children of '{rule}', but the grammar lets them "
                      "alternate: the marks are not listed in source order")
        return
    chk.unknown("C18-R1", key, f, f"{fn.name} walks its children by hand ({walked}); aggregation order not established")


def _can_interleave(g: Any, rule: str, names: set[str]) -> bool:
    """Do two of the named child rules occur inside one repeated group of ``rule``?"""
    def walk(alts: list[Any], repeated: bool) -> bool:
        for s in alts:
            for e in s.elems:
                if e.kind == "group":
                    inner = {x.value for a in e.value for x in a.elems if x.kind == "ref"}
                    rep = repeated or e.suffix.startswith(("*", "+"))
                    if rep and len(inner & names) > 1:
                        return True
                    if walk(e.value, rep):
                        return True
        return False
    return walk(g.rules[rule].alts, False)


def _tuple_roles(chk: Check, ctx: Any, marker_handler: Any, arg_handler: Any) -> None:
    repo = ctx.repo
    parse = repo.func("explorerscript.common_syntax:parse_position_marker_arg")
    # role order of the returned tuple
    rets = [r.value for r in astq.returns_of(parse.node) if r.value is not None]
    if len(rets) != 1 or not isinstance(rets[0], ast.Tuple) or not all(isinstance(x, ast.Name) for x in rets[0].elts):
        chk.unknown("C18-R3", "parse_position_marker_arg:return", parse, "return value is not a tuple of two names")
        return
    roles = [x.id for x in rets[0].elts]  # type: ignore[attr-defined]
    if sorted(roles) != ["offset", "pos"]:
        chk.unknown("C18-R3", "parse_position_marker_arg:return", parse, f"tuple roles {roles} not recognised")
        return
    # arg handler relays the tuple unchanged
    col = repo.find_method(arg_handler, "collect")
    relayed: list[str] | None = None
    if col is not None:
        r2 = [r.value for r in astq.returns_of(col.node) if r.value is not None]
        if len(r2) == 1:
            e = astq.inline_locals(col.node, r2[0])
            if isinstance(e, ast.Call) and dotted(e.func) == "parse_position_marker_arg":
                relayed = roles
            elif isinstance(r2[0], ast.Tuple):
                # a, b = parse(...); return a, b
                unpack = None
                for n in walk_no_nested(col.node):
                    if isinstance(n, ast.Assign) and isinstance(n.targets[0], ast.Tuple) and isinstance(n.value, ast.Call) \
                            and dotted(n.value.func) == "parse_position_marker_arg":
                        unpack = [x.id for x in n.targets[0].elts if isinstance(x, ast.Name)]
                if unpack and len(unpack) == 2:
                    names = [x.id if isinstance(x, ast.Name) else None for x in r2[0].elts]
                    try:
                        relayed = [roles[unpack.index(nm)] for nm in names]  # type: ignore[arg-type]
                    except ValueError:
                        relayed = None
    if relayed is None:
        chk.unknown("C18-R3", "arg-handler:relay", col or arg_handler.mod, "argument handler does not relay parse_position_marker_arg()")
        return
    chk.hold("C18-R3", "arg-handler:relay", col, f"collect() returns ({', '.join(relayed)}) from parse_position_marker_arg")
    # marker handler: x first, y second; *_relative <- pos index, *_offset <- offset index
    mcol = repo.find_method(marker_handler, "collect")
    madd = repo.find_method(marker_handler, "add")
    if mcol is None or madd is None:
        raise AnalysisError("PositionMarkerCompileHandler.collect/add missing")
    call = next((c for c in walk_no_nested(mcol.node) if isinstance(c, ast.Call) and dotted(c.func) == "SsbOpParamPositionMarker"), None)
    if call is None:
        chk.unknown("C18-R3", "marker-handler:collect", mcol, "no SsbOpParamPositionMarker(...) construction")
        return
    pcls = repo.cls("explorerscript.ssb_converting.ssb_data_types.SsbOpParamPositionMarker")
    pinit = repo.find_method(pcls, "__init__")
    bound = astq.bind_call_args(call, astq.params_of(pinit.node))  # type: ignore[union-attr]
    for p in ("x_offset", "y_offset", "x_relative", "y_relative"):
        e = bound.get(p)
        key = f"PositionMarkerCompileHandler.collect:{p}"
        if not (isinstance(e, ast.Subscript) and astq.self_attr(e.value) in ("x", "y") and astq.const_index(e) in (0, 1)):
            chk.unknown("C18-R3", key, mcol, f"argument {norm(e) if e is not None else None} not of the form self.x[i]/self.y[i]")
            continue
        axis = astq.self_attr(e.value)
        role = relayed[astq.const_index(e)]
        want_axis = p[0]
        want_role = "offset" if p.endswith("offset") else "pos"
        ok = axis == want_axis and role == want_role
        chk.decide("C18-R3", key, ok, mcol,
                   f"{p} is taken from self.{axis}[{astq.const_index(e)}] = the {role} part of the {axis} argument; expected the "
                   f"{want_role} part of the {want_axis} argument", f"{p} <- {want_role} of {want_axis}", node=call)
    # add(): first argument -> x, second -> y
    first_branch = None
    for n in walk_no_nested(madd.node):
        if isinstance(n, ast.If) and isinstance(n.test, ast.Compare) and astq.self_attr(n.test.left) in ("x", "y") \
                and isinstance(n.test.ops[0], ast.Is) and isinstance(n.test.comparators[0], ast.Constant) and n.test.comparators[0].value is None:
            tested = astq.self_attr(n.test.left)
            then_set = {a for s in n.body for a, _v, _s in astq.self_assigns(ast.Module(body=[s], type_ignores=[]))}  # type: ignore[arg-type]
            else_set = {a for s in n.orelse for a, _v, _s in astq.self_assigns(ast.Module(body=[s], type_ignores=[]))}  # type: ignore[arg-type]
            first_branch = (tested, then_set, else_set)
    if first_branch is None:
        chk.unknown("C18-R3", "marker-handler:add", madd, "x-then-y idiom not recognised")
    else:
        tested, then_set, else_set = first_branch
        ok = tested == "x" and then_set == {"x"} and else_set == {"y"}
        chk.decide("C18-R3", "marker-handler:add", ok, madd,
                   f"add() stores the first argument in self.{sorted(then_set)} and the second in self.{sorted(else_set)}; x must come first",
                   "first argument -> x, second -> y")
    # half-tile constant: parser assigns, printer tests
    consts = {}
    for n in walk_no_nested(parse.node):
        if isinstance(n, ast.If) and isinstance(n.test, ast.Compare) and isinstance(n.test.ops[0], ast.Eq) \
                and isinstance(n.test.comparators[0], ast.Constant):
            for s in n.body:
                if isinstance(s, ast.Assign) and isinstance(s.targets[0], ast.Name) and s.targets[0].id == "offset" \
                        and isinstance(s.value, ast.Constant):
                    consts[n.test.comparators[0].value] = s.value.value
    if 5 not in consts:
        chk.unknown("C18-R3", "half-tile:parser", parse, "assignment of the half-tile offset for '.5' not found")
    else:
        half = consts[5]
        none = consts.get(0, 0)
        for prop in ("x_final", "y_final"):
            pf = repo.find_method(pcls, prop)
            if pf is None:
                chk.unknown("C18-R3", f"half-tile:{prop}", pcls.mod, f"{prop} not found")
                continue
            tests = [n.test for n in walk_no_nested(pf.node) if isinstance(n, ast.If)]
            if len(tests) != 1 or not isinstance(tests[0], ast.Compare):
                chk.unknown("C18-R3", f"half-tile:{prop}", pf, "printer predicate not recognised")
                continue
            t = tests[0]
            attr = astq.self_attr(t.left)
            want_attr = prop[0] + "_offset"

            def ev(v: int) -> bool | None:
                try:
                    expr = ast.fix_missing_locations(ast.Expression(ast.Compare(ast.Constant(v), t.ops, t.comparators)))
                    return bool(eval(compile(expr, "<pred>", "eval"), {"__builtins__": {}}, {}))
                except Exception:
                    return None
            ok = attr == want_attr and ev(half) is True and ev(none) is False
            chk.decide("C18-R3", f"half-tile:{prop}", ok, pf,
                       f"printer adds '.5' when self.{attr} {norm(t)[len(norm(t.left)):]}; the parser stores {half} for '.5' and {none} otherwise "
                       f"(expected a predicate on self.{want_attr} that is true for {half} and false for {none})",
                       f"'.5' printed exactly for the offset value {half} the parser stores")


# --------------------------------------------------------------------------- R4: the listing visitor interpreted on sample sources

MARK_SOURCES = {
    "everywhere": '''import "x.exps";
macro m($a) {
    foo(Position<'in_macro', 1, 2>);
    ~inner(Position<'macro_call_arg', 3.5, 4>, 5);
    if (debug) { g(Position<'macro_nested', 0, 0>); }
}
def 0 {
    bar(1, Position<'first', 10, 20.5>, 'str');  baz(Position<"dq", 0x10, 0b11>);
    switch (ProcessSpecial(Position<'in_switch_header', 1, 1>, 2)) { case 1: qux(Position<'in_case', 7, 8>); default: r(Position<'in_default', 1.0, 2.50>); }
    if (BranchX(Position<'in_if', 1, 2>)) { a(); } elseif not (BranchY(Position<'in_elseif', 3, 4>)) { b(); } else { c(Position<'in_else', 5, 6>); }
    with (actor 3) { c(Position<'in_with', 5, 6>); }
    d<actor 2>(Position<
        'multi line',
        11.5,
        12
    >);
    ~callmacro(Position<'routine_macro_arg', 1, 2.5>);
    message_SwitchTalk ($X) { case 1: "Position<'not a mark', 1, 2>" }
    forever { while (BranchZ(Position<'in_while', 9, 9>)) { e(Position<'in_loop', 8, 8.5>); } }
    for ($i = 0; $i < 3; $i += 1;) { f(Position<'in_for', -1, -2.5>); }
}
coro Co { h(Position<'it\\'s', 1, 2>, Position<'two in one', 3, 4>); }
def 1 for actor 5 { k(Position<'', 0, 0>); }
''',
    "none": "def 0 { a(); 'x'; }\n".replace("'x'; ", ""),
    "spellings": "def 0 { a(Position<'padded', 08.5, 010.0>, Position<'neg', -007.50, 00.5>); b(Position<'plain', 123.0, -456.500>, Position<'hex', 0x1F, 0b101>); }",
    "one-line": "def 0 { a(Position<'p', 1, 2>); } def 1 { b(Position<'q', 3.5, 4.5>); }",
}


def edited_mark_rule(chk: Check, ctx: Any, rule: str) -> None:
    """"the printed form of an edited mark": a mark object that was printed, then edited in place, prints like a new mark with the edited values."""
    from ..engine.absint import Interp, PyExc, Unsupported
    repo = ctx.repo
    I = Interp(repo, ctx.fold)
    M = repo.find_class("SsbOpParamPositionMarker")
    anchor = Func(M.mod, M, M.methods["__str__"]) if "__str__" in M.methods else M.mod
    fields = ("name", "x_offset", "y_offset", "x_relative", "y_relative")
    edits = [(("m", 0, 0, 1, 2), ("m", 2, 0, 5, 2)), (("m", 2, 2, 10, 20), ("n'q", 0, 2, 10, 21)), (("a", 0, 2, -3, 0), ("a", 2, 0, 3, -1)),
             (("z", 0, 0, 0, 0), ("z", 0, 0, 0, 0)), (("k", 2, 0, 7, 7), ("k", 0, 0, 8, 7))]
    for before, after in edits:
        key = f"edited-mark:{before}->{after}"
        try:
            obj = I.new(M, *before)
            first = I.str_strict(obj)
            for fld, v in zip(fields, after):
                I.setattr_(obj, fld, v) if hasattr(I, "setattr_") else obj.attrs.__setitem__(fld, v)
            second = I.str_strict(obj)
            fresh = I.str_strict(I.new(M, *after))
            chk.decide(rule, key, second == fresh, anchor,
                       f"a mark printed as {first!r}, then edited in place to {after}, prints as {second!r}; a new mark with these values prints as {fresh!r}",
                       "an edited mark prints like a new mark with the same values")
        except PyExc as e:
            chk.violation(rule, key, anchor, f"printing the edited mark fails: {e.cls_name}: {e.msg}")
        except Unsupported as e:
            chk.unknown(rule, key, anchor, f"abstract interpretation left the modelled subset: {e}")


def listing_rule(chk: Check, ctx: Any, rule: str) -> None:
    from ..engine.absint import AObj, PyExc, Unsupported
    from ..engine.sta import SpecError, WholeCompiler, TreeCompiler
    from ..spec import language_forms as LF
    import bisect
    repo = ctx.repo
    g = ctx.grammar_exps
    wc = WholeCompiler(repo, ctx.fold, g)
    I = wc.I
    vcls = repo.cls("explorerscript.ssb_converting.compiler.compiler_visitor.position_mark_visitor.PositionMarkVisitor")
    anchor = Func(vcls.mod, vcls, vcls.methods["visitPosition_marker"]) if "visitPosition_marker" in vcls.methods else vcls.mod
    n_marks = 0
    for name, text in MARK_SOURCES.items():
        key = f"listing:{name}"
        tree = g.parse_text("start", text)
        if tree is None:
            chk.unknown(rule, key, anchor, "sample source does not parse with the grammar")
            continue
        starts = [0] + [i + 1 for i, ch in enumerate(text) if ch == "\n"]

        def pos(p: int) -> tuple[int, int]:
            i = bisect.bisect_right(starts, p) - 1
            return i, p - starts[i]
        want = []
        for n in tree.walk():
            if n.rule != "position_marker":
                continue
            lit = n.tok("STRING_LITERAL").text
            nm = lit[1:-1].replace('\\"', '"').replace("\\'", "'").replace("\\n", "\n")
            args = n.subs("position_marker_arg")
            x, y = LF.position_arg(args[0].first_token().text), LF.position_arg(args[1].first_token().text)
            want.append((pos(n.first_token().pos), pos(n.last_token().pos), nm, x[1], y[1], x[0], y[0]))
        want.sort()
        n_marks += len(want)
        try:
            I.steps = 0
            ctree = wc.parse(text)
            v = I.new(vcls)
            res = I.visit_dispatch(v, ctree)
        except PyExc as e:
            chk.violation(rule, key, anchor, f"the listing fails on a source that parses: {e.cls_name}: {e.msg}")
            continue
        except (Unsupported, SpecError) as e:
            chk.unknown(rule, key, anchor, f"abstract interpretation left the modelled subset: {e}")
            continue
        if not isinstance(res, list):
            chk.violation(rule, key, anchor, f"the listing returns {res!r}, not a list of marks")
            continue
        got = []
        for m in res:
            a = m.attrs if isinstance(m, AObj) else {}
            got.append(((a.get("line_number"), a.get("column_number")), (a.get("end_line_number"), a.get("end_column_number")), a.get("name"),
                        a.get("x_offset"), a.get("y_offset"), a.get("x_relative"), a.get("y_relative")))
        in_order = got == sorted(got)
        missing = [w for w in want if w not in got]
        extra = [x for x in got if x not in want]
        ok = in_order and not missing and not extra and len(got) == len(want)
        why = []
        if missing:
            why.append(f"{len(missing)} literal(s) missing or listed with other values, e.g. expected {missing[0]}")
        if extra:
            why.append(f"listed but not in the source (or with wrong span/values): {extra[0]}")
        if not in_order:
            why.append("entries are not in source order")
        if len(got) != len(want):
            why.append(f"{len(got)} entries for {len(want)} literals")
        chk.decide(rule, key, ok, anchor, f"sample `{name}`: " + "; ".join(why) + " (entry = (start line/col of `Position`, line/col of `>`, name, x offset, y offset, x tile, y tile))",
                   f"{len(want)} literals listed in source order with exact spans and values")
        # the same literals as the compiler sees them (routines only; macros are not expanded here)
        if name in ("one-line", "spellings"):
            try:
                res2 = wc.compile(text, "$PERF")
                comp = []
                for r in res2["routine_ops"]:
                    for op in r:
                        for p in op.attrs["params"]:
                            if isinstance(p, AObj) and p.cls.name == "SsbOpParamPositionMarker":
                                a = p.attrs
                                comp.append((a.get("name"), a.get("x_offset"), a.get("y_offset"), a.get("x_relative"), a.get("y_relative")))
                chk.decide(rule, key + ":compiler-agrees", comp == [w[2:] for w in got], anchor,
                           f"the compiler produces marks {comp}; the listing says {[w[2:] for w in got]}", "listing values = compiled parameters")
            except (PyExc, Unsupported, SpecError) as e:
                chk.unknown(rule, key + ":compiler-agrees", anchor, f"compile of the sample not evaluated: {e}")
    chk.floor(rule, "Position<...> literals in the listing samples", n_marks, 20)
