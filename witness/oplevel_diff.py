"""Triage tool (not a check): the exhaustive small-routine family (rules/ssbs_roundtrip._op_level) decompiled by the real code and by
/verif's interpreted pipeline; the two texts must be identical.

Run:  PYTHONPATH=/verif:/repo /venv/bin/python witness/oplevel_diff.py <part> <parts> [max_ops] [switch]
"""
import logging
import signal
import sys
import warnings

warnings.filterwarnings("ignore")
logging.disable(logging.CRITICAL)
sys.setrecursionlimit(3000)
sys.path.insert(0, "/verif")

from esv.engine.loader import Repo  # noqa: E402
from esv.engine.consts import Folder  # noqa: E402
from esv.engine.pipeline import Pipeline  # noqa: E402
from esv.engine.absint import PyExc, Unsupported  # noqa: E402
from esv.rules.ssbs_roundtrip import _op_level, _switch_level  # noqa: E402

from explorerscript.ssb_converting.ssb_data_types import DungeonModeConstants, SsbOperation, SsbOpCode, SsbRoutineInfo, SsbRoutineType, SsbOpParamConstant  # noqa: E402
from explorerscript.ssb_converting.ssb_decompiler import ExplorerScriptSsbDecompiler  # noqa: E402

DMC = DungeonModeConstants("DMODE_CLOSED", "DMODE_OPEN", "DMODE_REQUEST", "DMODE_OPEN_AND_REQUEST")


class TO(BaseException):
    pass


def alarm(*a):
    raise TO()


signal.signal(signal.SIGALRM, alarm)
part, parts = int(sys.argv[1]), int(sys.argv[2])
thorough = (int(sys.argv[3]) if len(sys.argv) > 3 else 4) >= 4
repo = Repo("/repo")
P = Pipeline(repo, Folder(repo), max_steps=3_000_000)
n = bad = skipped = 0
family = _switch_level if (len(sys.argv) > 4 and sys.argv[4] == "switch") else _op_level
for idx, (name, infos, ops, names) in enumerate(family(P, thorough)):
    if idx % parts != part:
        continue
    real_ops = []
    for op in ops[0]:
        ps = [SsbOpParamConstant(p.attrs["name"]) if hasattr(p, "attrs") else p for p in op.attrs["params"]]
        real_ops.append(SsbOperation(op.attrs["offset"], SsbOpCode(-1, op.attrs["op_code"].attrs["name"]), ps))
    shape = " ".join(f"{o.op_code.name}{[str(p) for p in o.params]}" for o in real_ops)
    signal.alarm(30)
    try:
        real, _ = ExplorerScriptSsbDecompiler([SsbRoutineInfo(SsbRoutineType.GENERIC, 0)], [real_ops], [], "$PERF", DMC).convert()
    except TO:
        skipped += 1
        continue
    finally:
        signal.alarm(0)
    try:
        mine, _ = P.decompile_exps(infos, ops, names)
    except (PyExc, Unsupported) as ex:
        mine = f"<{type(ex).__name__}: {ex}>"
    n += 1
    if real != mine:
        bad += 1
        if bad <= 3:
            print("MISMATCH", shape)
            print("--- real\n" + "\n".join(l for l in real.split("\n") if not l.startswith("//"))[:500])
            print("--- mine\n" + "\n".join(l for l in mine.split("\n") if not l.startswith("//"))[:500])
print(f"part {part}: {n} routines compared, {bad} mismatches, {skipped} skipped (real code > 30 s)")
