"""C17: the token table run on sample texts by a model of pygments' RegexLexer loop.

The table (patterns, actions, state changes) is read from the class body by rules/c17.py; this module holds the model of the
driver loop (quoted in c17's docstring) and the sample texts.  The patterns are matched with the standard library's `re`; no
repository code and no pygments code runs.  If the lexer class overrides the driver (`get_tokens_unprocessed`), the override
is interpreted from its syntax tree (engine.absint) on top of the modelled base loop.
"""

from __future__ import annotations

import re
from typing import Any

from ..engine.absint import NativeObj


class TokType(NativeObj):
    """pygments.token._TokenType: identity per dotted name, `sub in Parent`, attribute access creates the subtype."""

    _all: dict[tuple[str, ...], "TokType"] = {}

    def __init__(self, path: tuple[str, ...]) -> None:
        self.path = path

    @classmethod
    def get(cls, path: tuple[str, ...]) -> "TokType":
        if path not in cls._all:
            cls._all[path] = TokType(path)
        return cls._all[path]

    def __getattr__(self, name: str) -> Any:
        if name[:1].isupper():
            return TokType.get(self.path + (name,))
        raise AttributeError(name)

    def __contains__(self, other: Any) -> bool:
        return isinstance(other, TokType) and other.path[:len(self.path)] == self.path

    def __repr__(self) -> str:
        return "Token" + "".join("." + p for p in self.path)

    @property
    def parent(self) -> Any:
        return TokType.get(self.path[:-1]) if self.path else None


# names importable from pygments.token and what they stand for
STANDARD = {
    "Token": (), "Text": ("Text",), "Whitespace": ("Text", "Whitespace"), "Escape": ("Escape",), "Error": ("Error",), "Other": ("Other",),
    "Keyword": ("Keyword",), "Name": ("Name",), "Literal": ("Literal",), "String": ("Literal", "String"), "Number": ("Literal", "Number"),
    "Punctuation": ("Punctuation",), "Operator": ("Operator",), "Comment": ("Comment",), "Generic": ("Generic",),
}


def token_type(dotted_name: str) -> TokType | None:
    """`String.Double` / `pygments.token.String.Double` -> its type."""
    parts = dotted_name.split(".")
    if parts[:2] == ["pygments", "token"]:
        parts = parts[2:]
    if not parts or parts[0] not in STANDARD:
        return None
    return TokType.get(STANDARD[parts[0]] + tuple(parts[1:]))


class LexLoop(Exception):
    pass


def lex(table: dict[str, list[dict[str, Any]]], flags: int, text: str, stack: tuple[str, ...] = ("root",), max_steps: int = 200000,
        call_cb: Any = None) -> list[tuple[int, TokType, str]]:
    """The loop of RegexLexer.get_tokens_unprocessed.  `table[state]` is a list of rules {"rx": compiled, "emit": [(group, type)], "new": ...}."""
    out: list[tuple[int, TokType, str]] = []
    pos = 0
    statestack = list(stack)
    steps = 0
    seen: set[tuple[int, tuple[str, ...]]] = set()
    while True:
        steps += 1
        if steps > max_steps:
            raise LexLoop(f"no end after {max_steps} steps at position {pos}")
        for r in table[statestack[-1]]:
            m = r["rx"].match(text, pos)
            if m:
                if r.get("callback") is not None:
                    # `yield from action(self, m)`: a callable action; the loop continues at m.end() whatever the callback emitted
                    out.extend(call_cb(r["callback"], m))
                for grp, tt in r["emit"]:
                    if grp == 0:
                        out.append((pos, tt, m.group()))
                    else:
                        if m.group(grp) is not None and (m.group(grp) or True):
                            out.append((m.start(grp), tt, m.group(grp)))
                if m.end() == pos:
                    key = (pos, tuple(statestack))
                    if r["new"] is None or key in seen:
                        raise LexLoop(f"rule {r['pattern']!r} matches the empty string at position {pos} in state {statestack[-1]!r} and the lexer does not advance")
                    seen.add(key)
                pos = m.end()
                ns = r["new"]
                if ns is not None:
                    for st in ((ns,) if isinstance(ns, str) else tuple(ns)):
                        if st == "#pop":
                            if len(statestack) > 1:
                                statestack.pop()
                        elif st.startswith("#pop:"):
                            n = int(st[5:])
                            if n >= len(statestack):
                                del statestack[1:]
                            else:
                                del statestack[-n:]
                        elif st == "#push":
                            statestack.append(statestack[-1])
                        else:
                            statestack.append(st)
                break
        else:
            if pos >= len(text):
                break
            if text[pos] == "\n":
                statestack = ["root"]
                out.append((pos, TokType.get(("Text", "Whitespace")), "\n"))
                pos += 1
                continue
            out.append((pos, TokType.get(("Error",)), text[pos]))
            pos += 1
    return out


# ---------------------------------------------------------------------------------------------------------------------- samples
ACCEPTED_SOURCES: list[tuple[str, str]] = [
    ("plain", "def 0 {\n    foo(1, 2);\n    end;\n}\n"),
    ("strings", "def 0 {\n    a('x', \"y\", 'it\\'s', \"say \\\"hi\\\"\", 'say \"hi\"', \"it's\");\n}\n"),
    ("multi-line strings", "def 0 {\n    a('''one\n    two\n''', \"\"\"three\n\n    \"four\" ''\n    \"\"\");\n}\n"),
    ("language strings", "def 0 {\n    msg({english='one', german=\"zwei\", french='''trois\nquatre'''});\n}\n"),
    ("numbers", "def 0 {\n    n(0, 7, 000, 0x1F, 0b101, 0o17, 1.5, -2.25, .5, -0.5, 00.50);\n}\n"),
    ("comments", "/* block\n * comment ** / */\n// line\ndef 0 { // after\n    a(/* in */ 1); /**/\n}\n// last line without line break"),
    ("open block comment at the end", "def 0 { a(); }\n/* never closed\n def 1 { b(); }"),
    ("labels and variables", "def 0 {\n    @l1;\n    §l2;\n    $V = 3;\n    $W += $V;\n    jump @l1;\n    call @l2;\n}\n"),
    ("blocks", "def 0 {\n    if not ($A == 1 || $B[2]) { a(); } elseif (debug) { b(); } else { c(); }\n    switch (random(3)) { case 1: case 2: x(); break; default: y(); }\n"
               "    forever { continue; }\n    while ($A < 2) { break_loop; }\n    for ($I = 0; $I < 3; $I += 1;) { z(); }\n    with (actor 3) { w(); }\n"
               "    message_SwitchTalk ($V) { case 1: 'one' default: {english=\"x\"} }\n    hold;\n}\n"),
    ("headers", "import 'a.exps';\nimport \"b/c.exps\";\ncoro NAME { return; }\ndef 1 for actor 5 { a(); }\ndef 2 for_object(OBJ) { b(); }\ndef 3 for performer 2 { c(); }\ndef 5 { alias previous; }\n"
                "macro m($a, $b) { f($a); return; }\ndef 4 { ~m(1, 'x'); }\n"),
    ("position marks", "def 0 {\n    p(Position<'m', 1, 2.5>, Position<\"n\\\"q\", -3.5,\n       4>);\n}\n"),
    ("non-ASCII text", "def 0 {\n    say('Pokémon – “quoted” 日本語 \U0001F600', \"ß\\n\");\n}\n"),
    ("tabs and carriage returns", "def 0 {\r\n\tfoo(1);\r\n}\r\n"),
    ("line joining", "def 0 {\n    foo(1, \\\n        2);\n}\n"),
    ("line comments with trailing blanks", "def 0 { // after  \t\n    a(); //\t\n    //   \n    b(); // x \x0c\n}\n// end \xa0\n"),
    ("radix prefixes in both cases", "def 0 {\n    n(0X1F, 0B11, 0O17, 0xaB, 0b0, 0o7, 0XFF, -0X1f, 000);\n}\n"),
    ("comments inside statements", "def 0 {\n    p(Position<'m0', 10, /* y */ 20>, /* a */ 1, // b\n      2);\n    if /* c */ ($A /* d */ == 1) { }\n}\n"),
    ("operators", "def 0 {\n    $A -= 1; $A *= 2; $A /= 3; $A = $B;\n    if ($A >= 1 || $A <= 2 || $A != 3 || $A & 4 || $A ^ 5 || $A &<< 6 || $A > 7) { }\n}\n"),
]

ANY_TEXTS: list[tuple[str, str]] = [
    ("empty", ""),
    ("one line break", "\n"),
    ("line breaks only", "\n\n\n"),
    ("open double quote", "def 0 { a(\"abc"),
    ("open single quote", "a('abc\ndef"),
    ("open triple double quote", "a(\"\"\"abc\n\"\" \" x"),
    ("open triple single quote", "a('''abc\n'' ' x"),
    ("quote directly at the end", "x \""),
    ("two quotes at the end", "x ''"),
    ("open block comment", "/* abc * / **"),
    ("slash at the end", "a /"),
    ("line comment at the end", "a // b"),
    ("lone sigils", "$ § @ ~ # ` \\ ? ! % ^ & | \x00 \x7f ﻿   \x0b \x0c"),
    ("digits and dots", "1..2 .5. 0x 0b 0o 08 09 1e5 0j 07j"),
    ("control characters in a string", "'a\x00b\tc\x1b'"),
    ("surrogate-free astral", "\U0001F600\U0010FFFF"),
    ("keyword prefixes", "iffy defx end_ for_actor2 returns TRUEx"),
    ("escaped quote at the end of a string", "a('it\\'s'); b(\"x\\\"\");"),
    ("long run inside an open comment", "/*" + "a*b" * 40),
    ("long run inside an open string", "'" + "ab " * 60),
    ("many stars", "/" + "*" * 50),
]


def preservation(tokens: list[tuple[int, Any, str]], text: str) -> str | None:
    joined = "".join(v for _p, _t, v in tokens)
    if joined == text:
        return None
    i = 0
    while i < min(len(joined), len(text)) and joined[i] == text[i]:
        i += 1
    return f"the token texts differ from the input from position {i}: input {text[i:i + 20]!r}, tokens {joined[i:i + 20]!r} (lengths {len(text)} / {len(joined)})"
