"""Command line: python -m esv check <ID> [--tier quick|thorough] [--replay PATH] | selftest | all"""

from __future__ import annotations

import argparse
import importlib
import json
import os
import sys
import traceback

from .engine.loader import Repo, AnalysisError
from .engine.report import Check
from .engine.context import Ctx

PROPS = [f"C{i:02d}" for i in range(1, 19)]
LEVELS = {"C17": "proof"}


def run_check(prop: str, tier: str, replay: str | None) -> int:
    seed = int(os.environ.get("VERIF_SEED", "0") or 0)
    replay_filter = None
    if replay:
        try:
            replay_filter = json.load(open(replay))["ident"]
        except Exception as e:
            print(f"ANALYSIS-ERROR property={prop} cannot read replay file {replay}: {e}")
            return 2
    try:
        repo = Repo()
        chk = Check(prop, tier, repo, LEVELS.get(prop, "other"))
        ctx = Ctx(repo, tier)
        mod = importlib.import_module(f"esv.rules.{prop.lower()}")
        try:
            mod.run(chk, ctx)
        except AnalysisError as e:
            chk.unknown(f"{prop}-ENGINE", "analysis-error", ("", 0), str(e))
        return chk.finish(seed, replay_filter)
    except AnalysisError as e:
        print(f"ANALYSIS-ERROR property={prop} {e}")
        return 2
    except Exception:
        traceback.print_exc()
        print(f"ANALYSIS-ERROR property={prop} internal exception (see traceback)")
        return 2


class _SafeOut:
    """stdout that ignores a closed pipe (e.g. `| head`), so that the exit code still reports the verdict."""

    def __init__(self, f):  # type: ignore[no-untyped-def]
        self.f = f
        self.dead = False

    def write(self, s):  # type: ignore[no-untyped-def]
        if self.dead:
            return len(s)
        try:
            return self.f.write(s)
        except BrokenPipeError:
            self.dead = True
            return len(s)

    def flush(self):  # type: ignore[no-untyped-def]
        if not self.dead:
            try:
                self.f.flush()
            except BrokenPipeError:
                self.dead = True


def main(argv: list[str]) -> int:
    sys.stdout = _SafeOut(sys.stdout)  # type: ignore[assignment]
    ap = argparse.ArgumentParser(prog="esv")
    sub = ap.add_subparsers(dest="cmd", required=True)
    c = sub.add_parser("check")
    c.add_argument("prop")
    c.add_argument("--tier", default="quick", choices=["quick", "thorough"])
    c.add_argument("--replay", default=None)
    a = sub.add_parser("all")
    a.add_argument("--tier", default="quick", choices=["quick", "thorough"])
    s = sub.add_parser("selftest")
    s.add_argument("--jobs", type=int, default=3)
    s.add_argument("--only", default=None)
    args = ap.parse_args(argv)
    if args.cmd == "check":
        tier = os.environ.get("VERIF_TIER") or args.tier
        if tier not in ("quick", "thorough"):
            tier = args.tier
        return run_check(args.prop.upper(), tier, args.replay)
    if args.cmd == "all":
        worst = 0
        for p in PROPS:
            try:
                importlib.import_module(f"esv.rules.{p.lower()}")
            except ModuleNotFoundError:
                continue
            worst = max(worst, run_check(p, args.tier, None))
        return worst
    if args.cmd == "selftest":
        from .selftest import runner
        # mutants, reverts of the repairs and twins; the seeded changes are confirmed by tools/confirm_seeds.py (`--kinds seed` of the runner runs them too)
        return runner.main(["--jobs", str(args.jobs), "--kinds", "mutant,revert,twin"] + (["--only", args.only] if args.only else ["--write"]))
    return 2


if __name__ == "__main__":
    sys.exit(main(sys.argv[1:]))
