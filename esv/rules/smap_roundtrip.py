"""C14: SourceMap.serialize / deserialize / rewrite_offsets interpreted on maps the (interpreted) compiler and decompiler produce."""

from __future__ import annotations

import json
from typing import Any

from ..engine.absint import AObj, ClassVal, PyExc, Unsupported
from ..engine.loader import AnalysisError
from ..engine.report import Check


def _dump(I: Any, v: Any) -> Any:
    """Structural value of an abstract object graph (classes, attributes, containers; tuples stay tuples)."""
    if isinstance(v, AObj):
        return (v.cls.name, tuple(sorted((k, _dump(I, x)) for k, x in v.attrs.items())))
    if isinstance(v, dict):
        return ("dict", tuple(sorted(((repr(k), _dump(I, x)) for k, x in v.items()))))
    if isinstance(v, list):
        return ("list", tuple(_dump(I, x) for x in v))
    if isinstance(v, tuple):
        return ("tuple", tuple(_dump(I, x) for x in v))
    return v


def smap_rule(chk: Check, ctx: Any, rule: str) -> None:
    from ..engine.pipeline import Pipeline
    from .macros import MAP_MAIN, MAP_PROJECT
    repo = ctx.repo
    P = Pipeline(repo, ctx.fold)
    I = P.I
    I.natives["json.dumps"] = json.dumps
    I.natives["json.loads"] = json.loads
    smc = repo.find_class("SourceMap")
    ser = repo.find_method(smc, "serialize")
    des = repo.find_method(smc, "deserialize")
    rew = repo.find_method(smc, "rewrite_offsets")
    eq = repo.find_method(smc, "__eq__")
    anchor = ser
    if ser is None or des is None or rew is None or eq is None:
        chk.unknown(rule, "smap:methods", smc.mod, "SourceMap.serialize/deserialize/rewrite_offsets/__eq__ not found")
        return
    maps: list[tuple[str, Any]] = []
    factories: dict[str, Any] = {}
    try:
        c = P.compile_exps(MAP_MAIN, "/proj/main.exps", MAP_PROJECT)
        maps.append(("macro-project", c.attrs["source_map"]))
        c2 = P.compile_exps("def 0 {\n    a(Position<'p', 1, 2.5>);\n    if ($V == 1) { b(); }\n    end;\n}\n")
        maps.append(("direct-program", c2.attrs["source_map"]))
        _t, dm = P.decompile_exps(c2.attrs["routine_infos"], c2.attrs["routine_ops"], c2.attrs["named_coroutines"])
        maps.append(("decompiler-map", dm))
        maps.append(("empty", I.call_func(repo.find_method(smc, "create_empty"), [ClassVal(smc)], {})))
        # an arbitrary well-typed map ("as a reader of SSB files with its own op numbering builds it"): offsets start at 0, a return address is 0,
        # one entry has no return address, one return address names an op without an entry of its own
        fc = repo.find_class
        mk = lambda *a: I.new(fc("MacroSourceMapping"), *a)  # noqa: E731
        hand = I.new(smc, {0: I.new(fc("SourceMapping"), 3, 4), 2: I.new(fc("SourceMapping"), 5, 0)}, [],
                     {1: mk(None, "m", 7, 8, (None, 1, 2), 0, {"$a": 1}), 4: mk("lib/x.exps", "n", 9, 0, None, None, {}), 5: mk("lib/x.exps", "n", 10, 0, ("lib/x.exps", 2, 2), 7, {"$b": "s"})},
                     [])
        maps.append(("hand-made-from-offset-0", hand))
        # maps in which one of the tables is empty: only macro entries (routines that consist of macro calls), only marks
        C3 = ("macro say($t) {\n    s($t);\n    if ($A == 1 || $B == 2) { t2(Position<'q', 2, 3>); } elseif ($C == 3 || $D == 4) { t3(); }\n}\n"
              "macro twice($u) { ~say($u); ~say('again'); }\ndef 0 { ~say('first'); ~twice('hero'); }\ndef 1 { ~say('last'); }\n")
        c3 = P.compile_exps(C3)
        maps.append(("only-macro-entries", c3.attrs["source_map"]))
        # the same maps as the compiler hands them out (not read back from text): entries may be shared objects there
        factories["only-macro-entries"] = lambda: P.compile_exps(C3).attrs["source_map"]
        factories["macro-project"] = lambda: P.compile_exps(MAP_MAIN, "/proj/main.exps", MAP_PROJECT).attrs["source_map"]
        only_m = I.new(smc, {}, [], {3: mk(None, "m", 1, 2, (None, 5, 6), 5, {"$a": 1}), 4: mk(None, "m", 2, 2, None, 5, {"$a": 1}), 7: mk("x.exps", "k", 3, 0, (None, 6, 1), 9, {})}, [])
        maps.append(("hand-made-only-macro-entries", only_m))
    except (PyExc, Unsupported, AnalysisError) as e:
        chk.unknown(rule, "smap:inputs", anchor, f"the sample maps could not be produced: {e}")
        return
    n = 0
    for name, m in maps:
        # ---- serialise / read back
        key = f"smap:{name}:roundtrip"
        n += 1
        try:
            text = I.call_func(ser, [m], {})
            back = I.call_func(des, [ClassVal(smc), text], {})
            text2 = I.call_func(ser, [back], {})
            same = I.truth(I.call_func(eq, [back, m], {}))
            problems = []
            if not same:
                problems.append("the map read back does not compare equal to the original")
            if _dump(I, back) != _dump(I, m):
                a, b = _dump(I, m), _dump(I, back)
                d = next((f"{x[0]}: {str(x[1])[:160]} became {str(y[1])[:160]}" for x, y in zip(a[1], b[1]) if x != y), "structure differs")
                problems.append(f"entries differ after the round trip ({d})")
            if text2 != text:
                problems.append("serialising the map read back gives a different text")
            chk.decide(rule, key, not problems, anchor, f"map `{name}`: " + "; ".join(problems), "equal, identical entries, same text")
        except PyExc as e:
            chk.violation(rule, key, anchor, f"map `{name}`: serialise/read back fails with {e.cls_name}: {e.msg}")
            continue
        except (Unsupported, AnalysisError) as e:
            chk.unknown(rule, key, anchor, f"map `{name}`: abstract interpretation left the modelled subset: {e}")
            continue
        # ---- rewrite offsets
        offs = sorted(set(m.attrs["_mappings"]) | set(m.attrs["_mappings_macros"]))
        if not offs:
            continue
        rets = sorted({e.attrs["return_addr"] for e in m.attrs["_mappings_macros"].values() if isinstance(e.attrs.get("return_addr"), int)})
        universe = sorted(set(offs) | set(rets))
        mappings: dict[str, dict[int, int]] = {
            "identity": {o: o for o in universe},
            "shift": {o: o + 100 for o in universe},
            "renumber": {o: i for i, o in enumerate(universe)},
            "reverse": {o: len(universe) - i for i, o in enumerate(universe)},
            "drop-every-third": {o: i for i, o in enumerate(universe) if i % 3 != 1},
            "drop-return-ops": {o: i + 1 for i, o in enumerate(universe) if o not in rets},
            "swap-halves": {o: (i + len(universe) // 2) % len(universe) + 1 for i, o in enumerate(universe)},
            "empty": {},
        }
        # the same mappings with their keys inserted in another order (a mapping is a dict: what it says does not depend on the order)
        ren = {o: i for i, o in enumerate(universe)}
        mappings["renumber, keys inserted in descending order"] = {o: ren[o] for o in reversed(universe)}
        dro = {o: i + 1 for i, o in enumerate(universe) if o not in rets}
        half = len(universe) // 2
        mappings["drop-return-ops, second half of the keys inserted first"] = {o: dro[o] for o in universe[half:] + universe[:half] if o in dro}
        if rets:
            mappings["return-op-to-zero"] = {o: (0 if o == rets[0] else i + 1) for i, o in enumerate(universe)}
        runs = [(mname, mp, False) for mname, mp in mappings.items()]
        if name in factories:
            runs += [(mname, mp, True) for mname, mp in mappings.items() if mname in ("renumber", "drop-every-third", "drop-return-ops", "reverse")]
            runs.append(("one-based-gap-closing", {o: i + 1 for i, o in enumerate(universe)}, True))
        for mname, mp, direct in runs:
            key = f"smap:{name}:rewrite:{mname}" + (":map-of-the-compiler" if direct else "")
            n += 1
            try:
                fresh = factories[name]() if direct else I.call_func(des, [ClassVal(smc), text], {})
                before_d = dict(fresh.attrs["_mappings"])
                before_m = dict(fresh.attrs["_mappings_macros"])
                before_ret = {k: e.attrs.get("return_addr") for k, e in before_m.items()}
                before_marks = _dump(I, fresh.attrs["_position_marks"]), _dump(I, fresh.attrs["_position_marks_macro"])
                I.call_func(ser, [fresh], {})  # a map that was serialised before it is rewritten (history)
                I.call_func(rew, [fresh, dict(mp)], {})
                after_d, after_m = fresh.attrs["_mappings"], fresh.attrs["_mappings_macros"]
                problems = []
                want_d = {mp[k]: v for k, v in before_d.items() if k in mp}
                want_m = {mp[k]: v for k, v in before_m.items() if k in mp}
                if set(after_d) != set(want_d) or any(after_d[k] is not want_d[k] and _dump(I, after_d[k]) != _dump(I, want_d[k]) for k in want_d if k in after_d):
                    problems.append(f"direct entries: offsets {sorted(before_d)} under the mapping should become {sorted(want_d)}, are {sorted(after_d)}")
                if set(after_m) != set(want_m):
                    problems.append(f"macro entries: offsets {sorted(before_m)} should become {sorted(want_m)}, are {sorted(after_m)}")
                for old_k, e in before_m.items():
                    if old_k not in mp:
                        continue
                    old_ret = before_ret[old_k]
                    if not isinstance(old_ret, int):
                        continue
                    survivors = [o for o in sorted(mp) if o >= old_ret]
                    new_ret = e.attrs.get("return_addr")
                    if survivors:
                        if new_ret != mp[survivors[0]]:
                            problems.append(f"return address {old_ret} of the entry at {old_k}: the op (or the next surviving op, {survivors[0]}) moves to {mp[survivors[0]]}, "
                                            f"the entry says {new_ret}")
                            break
                if (_dump(I, fresh.attrs["_position_marks"]), _dump(I, fresh.attrs["_position_marks_macro"])) != before_marks:
                    problems.append("position marks changed")
                reread = I.call_func(des, [ClassVal(smc), text], {})
                if reread is fresh or _dump(I, reread) != _dump(I, m):
                    problems.append("reading the original text once more, after a map read from it was rewritten, does not give the original map again "
                                    "(the reader hands out an object it handed out before)")
                again = I.call_func(des, [ClassVal(smc), I.call_func(ser, [fresh], {})], {})
                if _dump(I, {k: v for k, v in again.attrs.items() if k.startswith("_mappings") or k.startswith("_position")}) != \
                        _dump(I, {k: v for k, v in fresh.attrs.items() if k.startswith("_mappings") or k.startswith("_position")}):
                    problems.append("serialising the rewritten map does not describe the rewritten map (it reads back differently)")
                chk.decide(rule, key, not problems, rew, f"map `{name}`, mapping `{mname}` {mp if len(mp) < 12 else ''}: " + "; ".join(problems[:2]),
                           "entries and return addresses follow their ops; only entries of absent ops are removed")
            except PyExc as e:
                chk.violation(rule, key, rew, f"map `{name}`, mapping `{mname}`: rewrite_offsets fails with {e.cls_name}: {e.msg}")
            except (Unsupported, AnalysisError) as e:
                chk.unknown(rule, key, rew, f"map `{name}`, mapping `{mname}`: abstract interpretation left the modelled subset: {e}")
    chk.floor(rule, "source-map round trips and rewrites evaluated", n, 20)
