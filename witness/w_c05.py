from wlib import *
src = """
macro top() { ~shallow(); ~deep1(); }
macro deep1() { ~deep2(); }
macro deep2() { ~shallow(); }
macro shallow() { s(); }
def 0 { ~top(); end; }
"""
try:
    c = comp(src); show(c)
except Exception as e:
    print(type(e).__name__, e)
