from wlib import *
import random, logging, sys
logging.disable(logging.CRITICAL)
seed = int(sys.argv[1]); random.seed(seed)
def ifb(i):
    hdr = random.choice(["$V == %d" % i, "debug", "$V == %d || $W[1]" % i])
    s = "if %s(%s) { %s }" % (random.choice(["", "not "]), hdr, " ".join("a%d_%d();" % (i, k) for k in range(random.randint(0, 3))))
    for k in range(random.randint(0, 2)):
        s += " elseif ($X == %d) { e%d_%d(); }" % (k, i, k)
    if random.random() < 0.5: s += " else { b%d(); }" % i
    return s
def swb(i):
    n = random.randint(1, 4)
    s = "switch (%s) { " % random.choice(["$W", "random(3)"])
    for k in range(n):
        if random.random() < 0.3: s += "case %d: " % (10 + k)
        s += "case %d: %s break; " % (k, " ".join("c%d_%d_%d();" % (i, k, j) for j in range(random.randint(1, 2))))
    if random.random() < 0.6: s += "default: d%d(); break; " % i
    return s + "}"
found = 0
for t in range(int(sys.argv[2])):
    routines = []
    for r in range(random.randint(1, 3)):
        parts = [random.choice([ifb, swb, swb, lambda i: "x%d();" % i])(i) for i in range(random.randint(1, 6))]
        routines.append("def %d { %s end; }" % (r, " ".join(parts)))
    src = " ".join(routines)
    try:
        c = comp(src); txt, sm = decomp(c)
    except Exception as e:
        print("EXC", type(e).__name__, src); found += 1; continue
    if "is-ssb-script" in txt or "jump @" in txt:
        print("FALLBACK" if "is-ssb-script" in txt else "JUMP", src); found += 1
    if found >= 3: break
print("done", seed, found)
